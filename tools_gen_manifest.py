#!/usr/bin/env python3
"""Regenerates MANIFEST.json from props/*.py and the static tables below."""
import json, os, sys
HERE = os.path.dirname(os.path.abspath(__file__))
sys.path.insert(0, HERE)
from vlib import registry

NOT_APPLICABLE = {
    "C08": "checkpoint transparency runs a whole VM through serde derive code and three wire codecs (serde_json, rmp-serde, bincode) with function-pointer-identity maps: not a bounded integer/array kernel, far outside what CBMC or an SMT encoding reaches (DESIGN.md 7); its container core (iter_all + FromIterator) is decided under C20",
    "C11": "a fixed point of two whole-file conversions through the PL pretty-printer and PL text parser with BTreeMap tables and lig/kern packing; the quantifier is over whole fonts, beyond any bound a SAT query finishes (DESIGN.md 7)",
    "C14": "needs a loaded font, its compiled lig/kern program, the pattern trie and String-valued ligature originals interacting over words; the smallest meaningful instance exceeds what the probes show to be tractable (DESIGN.md 7)",
    "C18": "both directions are text (Display printer, hand-written lexer/CST/AST over &str with Rc sharing); symbolic strings of useful length are out of reach; the numeric core (Scaled print/parse) is decided under C06 (DESIGN.md 7)",
    "C19": "file-system trait objects, PathBuf-keyed maps, whole-file line splitting and the VM main loop: a property over trees of files, not over a kernel (DESIGN.md 7)",
}
NOT_APPLICABLE.update({
    "C03": "the lexer works on &str with chars()/slicing; symbolic source bytes send CBMC into UTF-8 decoding and string searching over symbolic boundaries (the same shape did not finish for hyphenate::load_patterns in 25 min and for VM construction in 25 min, DESIGN.md 2.4); the MIR engine does not model strings. Not decided.",
    "C05": "lig/kern compilation and execution are HashMap/BTreeMap/String based (tfm::ligkern::{compiler,mod}); no bounded integer kernel could be separated and the containers are beyond the CBMC bounds measured here (DESIGN.md 2.4). Not attempted further in the time available.",
    "C12": "post_line_break and the text preprocessor build and split nested Vec<Horizontal> lists (with Rc and String payloads); the structurally similar dvi::Values (nested heap vectors) ran CBMC out of memory on 3 symbolic operations (DESIGN.md 2.4), and the functions are private (would need an in-crate mount). Not decided.",
    "C13": "measured: a Kani harness over Hyphenator::load_patterns + insert_exception + calculate_indices (one 5-byte pattern with symbolic digits, word 'ab') did not leave symbolic execution in 25 min (str::split_whitespace over symbolic bytes), and a variant with constant pattern text and only the word case / exception symbolic did not finish in 15 min; the hook was reverted. Not decided.",
})
PENDING_REASON = "no check registered yet in this revision of /verif (build in progress; see DESIGN.md 9 build order)"
ALL = [f"C{i:02d}" for i in range(1, 21)]

LEVEL_TEXT = {}

def main():
    checks, na = [], []
    for pid in ALL:
        path = os.path.join(HERE, "props", f"{pid}.py")
        if pid in NOT_APPLICABLE and not os.path.exists(path):
            na.append({"property_id": pid, "reason": NOT_APPLICABLE[pid]})
            continue
        if not os.path.exists(path):
            na.append({"property_id": pid, "reason": PENDING_REASON})
            continue
        prop = registry.load(pid)
        engines = sorted({o["engine"] for o in prop["obligations"]})
        tech = {("A",): "bounded model checking of the compiled Rust code (Kani 0.68 / CBMC 6.11, SAT)",
                ("B",): "symbolic execution of rustc MIR into SMT-LIB integer arithmetic, decided by z3 and cvc5",
                ("A", "B"): "bounded model checking of the compiled code (Kani/CBMC, SAT) + MIR->SMT symbolic execution decided by z3 and cvc5"}[tuple(engines)]
        checks.append({
            "property_id": pid,
            "quick_cmd": f"./check {pid} --tier quick",
            "thorough_cmd": f"./check {pid} --tier thorough",
            "evidence_file": f"/verif/evidence/{pid}.json",
            "replay_cmd_template": f"./check {pid} --replay {{path}}",
            "engine": "+".join({"A": "kani-cbmc", "B": "mir2smt"}[e] for e in engines),
            "level_claimed": {
                "category": "model_checking",
                "text": prop.get("level_text", "Every obligation is a solver verdict over all values of the symbolic inputs of the real compiled code within the bound stated per obligation in the evidence file; nothing is claimed outside those bounds."),
                "design_ref": prop.get("design_ref", "DESIGN.md 5"),
            },
            "level_note": prop.get("level_note", "Trusted: rustc MIR/Kani codegen and CBMC's memory model, the SAT/SMT solvers, std (incl. listed stubs), the hand-written reference models in /verif/harness. Bounds and stubs are listed per obligation in the evidence file."),
            "technique": tech,
        })
    man = {
        "version": 1,
        "setup_cmd": "./setup.sh",
        "hooks": json.load(open(os.path.join(HERE, "hooks.json"))),
        "engines": [
            {"name": "kani-cbmc", "path": "/verif/harness + /verif/vlib/engine_a.py", "serves_properties": [c["property_id"] for c in checks if "kani" in c["engine"]],
             "kind_free_text": "Kani 0.68 proof harnesses (path dependencies on /repo/crates/*), CBMC 6.11 + CaDiCaL; counterexamples replayed natively via concrete playback"},
            {"name": "mir2smt", "path": "/verif/mir2smt", "serves_properties": [c["property_id"] for c in checks if "mir2smt" in c["engine"]],
             "kind_free_text": "symbolic executor over rustc -Zunpretty=mir of /repo's crates into SMT-LIB (Int with explicit wrap/range obligations), z3 4.8.12 and cvc5 1.0 must agree"},
        ],
        "checks": checks,
        "not_applicable": na,
        "notes": "exit 2 from a check means inconclusive (timeout, OOM, vacuous harness, solver disagreement, counterexample that does not reproduce natively) and is never reported as success. Bounds per obligation are in evidence/<id>.json.",
    }
    json.dump(man, open(os.path.join(HERE, "MANIFEST.json"), "w"), indent=1)
    print("claimed:", [c["property_id"] for c in checks])

main()
