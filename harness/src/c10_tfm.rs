//! C10 (TFM reader, header arithmetic) — RawFile::deserialize on fully symbolic bytes.
use tfm::{RawFile, SubFileSizes};

/// Every byte and the length of a file of up to CAP bytes are symbolic: all 2^16 values of all twelve
/// header words against short files (the region the repository's own fuzz target never reaches,
/// because it only builds size-consistent headers).
fn raw_total<const CAP: usize>() -> (bool, usize, usize, i16, [u8; 2]) {
    let buf: [u8; CAP] = kani::any();
    let n: usize = kani::any();
    kani::assume(n <= CAP);
    let (r, warnings) = RawFile::deserialize(&buf[..n]);
    match &r {
        Ok(raw) => {
            let s = &raw.sub_file_sizes;
            let total = raw.raw_sub_file_sizes.len()
                + raw.header.len()
                + raw.char_infos.len()
                + raw.widths.len()
                + raw.heights.len()
                + raw.depths.len()
                + raw.italic_corrections.len()
                + raw.lig_kern_instructions.len()
                + raw.kerns.len()
                + raw.extensible_recipes.len()
                + raw.params.len();
            assert!(s.lf > 0 && total == 4 * (s.lf as usize), "the sub-files tile exactly the 4*lf declared bytes");
            assert!(total <= n, "nothing is read beyond the file");
            assert!(raw.raw_sub_file_sizes.len() == 24 && raw.header.len() == 4 * (s.lh as usize));
            assert!(raw.widths.len() == 4 * (s.nw as usize) && raw.params.len() == 4 * (s.np as usize));
        }
        Err(_) => {}
    }
    let out = match &r {
        Ok(raw) => (true, n, 4 * (raw.sub_file_sizes.lf as usize), raw.sub_file_sizes.np, [buf[0], buf[1]]),
        Err(_) => (false, n, 0, 0, [buf[0], buf[1]]),
    };
    std::mem::forget(r);
    std::mem::forget(warnings);
    out
}

#[kani::proof]
#[kani::unwind(4)]
fn c10_raw_header_total_52() {
    let (ok, n, total, np, _) = raw_total::<52>();
    kani::cover!(ok, "an accepted file");
    kani::cover!(ok && n > total, "accepted file with trailing bytes (warning)");
    kani::cover!(ok && np == 1, "accepted file with one parameter");
    kani::cover!(!ok && n >= 24, "a rejected file with a complete header");
}

#[kani::proof]
#[kani::unwind(4)]
fn c10_raw_header_total_28() {
    let (ok, n, _, _, b) = raw_total::<28>();
    kani::cover!(!ok && n >= 24, "a rejected file with a complete header");
    kani::cover!(n == 16 && b[0] == 0 && b[1] == 4, "16-byte file that declares lf = 4");
    kani::cover!(n == 20 && b[0] == 0 && b[1] == 5, "20-byte file that declares lf = 5");
}

/// valid_lf() on arbitrary non-negative sub-file sizes: never overflows / panics, and equals the
/// mathematical sum whenever that sum fits the result type.
#[kani::proof]
fn c10_valid_lf_all_sizes() {
    let s = SubFileSizes {
        lf: kani::any(),
        lh: kani::any(),
        bc: kani::any(),
        ec: kani::any(),
        nw: kani::any(),
        nh: kani::any(),
        nd: kani::any(),
        ni: kani::any(),
        nl: kani::any(),
        nk: kani::any(),
        ne: kani::any(),
        np: kani::any(),
    };
    kani::assume(s.lh >= 0 && s.bc >= 0 && s.ec >= 0 && s.nw >= 0 && s.nh >= 0 && s.nd >= 0 && s.ni >= 0 && s.nl >= 0 && s.nk >= 0 && s.ne >= 0 && s.np >= 0);
    let math: i64 = 6 + s.lh as i64 + (s.ec as i64 - s.bc as i64 + 1) + s.nw as i64 + s.nh as i64 + s.nd as i64 + s.ni as i64 + s.nl as i64 + s.nk as i64 + s.ne as i64 + s.np as i64;
    let got = s.valid_lf();
    if math >= i16::MIN as i64 && math <= i16::MAX as i64 {
        assert!(got as i64 == math, "valid_lf = 6 + lh + (ec-bc+1) + nw + nh + nd + ni + nl + nk + ne + np");
    } else {
        // a sum that does not fit cannot be the length of any file: it must not compare equal to a legal lf
        assert!(!(got > 0 && (got as i64) * 4 <= 64), "an overflowing sum never looks like a small valid length");
    }
    kani::cover!(math > i16::MAX as i64, "sizes that sum past 2^15");
    kani::cover!(math == 12, "minimal file");
}

/// The largest declarable file: lf = 32767 words (131068 bytes). The 24 header bytes are symbolic,
/// the body is zero. Sub-file sizes that are individually valid but sum past 2^15 must be rejected,
/// never sliced. (The sum itself is the subject; the body content is irrelevant to the slicing.)
#[kani::proof]
#[kani::unwind(26)]
fn c10_raw_header_largest_lf() {
    let mut buf: Vec<u8> = vec![0u8; 131072];
    let header: [u8; 24] = kani::any();
    kani::assume(header[0] == 0x7F && header[1] == 0xFF);
    let mut i = 0;
    while i < 24 {
        buf[i] = header[i];
        i += 1;
    }
    let (r, warnings) = RawFile::deserialize(&buf[..]);
    if let Ok(raw) = &r {
        let total = raw.raw_sub_file_sizes.len() + raw.header.len() + raw.char_infos.len() + raw.widths.len() + raw.heights.len()
            + raw.depths.len() + raw.italic_corrections.len() + raw.lig_kern_instructions.len() + raw.kerns.len()
            + raw.extensible_recipes.len() + raw.params.len();
        assert!(total == 4 * 32767, "the sub-files tile exactly the declared bytes");
    }
    kani::cover!(r.is_ok(), "a consistent header with lf = 32767");
    kani::cover!(r.is_err() && header[2] == 0 && header[3] == 2 && header[9] == 1 && header[11] == 1 && header[13] == 1 && header[15] == 1 && header[16] == 0x7F, "sizes that sum past 2^15 with lf = 32767");
    std::mem::forget(r);
    std::mem::forget(warnings);
    std::mem::forget(buf);
}

#[kani::proof]
#[kani::unwind(4)]
fn c10_raw_header_total_68() {
    let (ok, n, total, np, _) = raw_total::<68>();
    kani::cover!(ok && total == 64, "an accepted 16-word file");
    kani::cover!(ok && np == 3, "accepted file with three parameters");
    kani::cover!(!ok && n == 68, "a rejected 68-byte file");
}
