//! C17 (fix_word text) — the real `Display for FixWord` (TFtoPL.2014.40-43 out_fix) through core::fmt,
//! scanned back by a transcription of PLtoTF.2014.62-64 (get_fix). The PL reader's own number scanner
//! (`Parse for FixWord`, private, text based) is NOT exercised: this decides the printing half
//! against Knuth's reader.
use std::fmt::Write;
use tfm::FixWord;

struct Sink {
    buf: [u8; 20],
    n: usize,
}

impl Write for Sink {
    fn write_str(&mut self, s: &str) -> std::fmt::Result {
        let b = s.as_bytes();
        let mut i = 0;
        while i < b.len() {
            if self.n >= 20 {
                return Err(std::fmt::Error);
            }
            self.buf[self.n] = b[i];
            self.n += 1;
            i += 1;
        }
        Ok(())
    }
}

/// PLtoTF.2014.62-64 get_fix on the text in `sink` (after the "R" type code).
fn pltotf_get_fix(sink: &Sink) -> (i64, usize) {
    let mut i = 0;
    let negative = sink.buf[0] == b'-';
    if negative {
        i = 1;
    }
    let mut acc: i64 = 0;
    let mut int_digits = 0;
    while i < sink.n && sink.buf[i] != b'.' {
        assert!(sink.buf[i] >= b'0' && sink.buf[i] <= b'9', "integer part is made of digits");
        acc = acc * 10 + (sink.buf[i] - b'0') as i64;
        assert!(acc < 2048, "real constants must be less than 2048");
        int_digits += 1;
        i += 1;
    }
    assert!(int_digits >= 1 && i < sink.n, "there is an integer part and a decimal point");
    let int_part = acc;
    i += 1;
    let mut fraction_digits = [0i64; 8];
    let mut j = 0;
    let mut nd = 0;
    while i < sink.n {
        assert!(sink.buf[i] >= b'0' && sink.buf[i] <= b'9', "fraction is made of digits");
        if j < 7 {
            j += 1;
            fraction_digits[j] = 0o10000000 * (sink.buf[i] - b'0') as i64;
        }
        nd += 1;
        i += 1;
    }
    assert!(nd >= 1, "at least one fraction digit");
    acc = 0;
    while j > 0 {
        acc = fraction_digits[j] + acc / 10;
        j -= 1;
    }
    acc = (acc + 10) / 20;
    assert!(!(acc >= (1 << 20) && int_part == 2047), "real constants must be less than 2048");
    acc = int_part * (1 << 20) + acc;
    (if negative { -acc } else { acc }, nd)
}

fn print_then_get_fix(lo: i32, hi: i32) {
    let v: i32 = kani::any();
    kani::assume(v >= lo && v <= hi);
    let mut sink = Sink { buf: [0; 20], n: 0 };
    write!(sink, "{}", FixWord(v)).unwrap();
    let (back, nd) = pltotf_get_fix(&sink);
    assert!(back == v as i64, "print then PLtoTF's get_fix is the identity");
    assert!(nd <= 7, "at most seven fraction digits");
    kani::cover!(nd >= 6, "six or more fraction digits");
    kani::cover!(nd == 1 && v % (1 << 20) != 0, "one fraction digit suffices");
}

#[kani::proof]
#[kani::unwind(22)]
fn c17_print_get_fix_every_fraction() {
    // every 20-bit fraction with either sign, integer part 0
    print_then_get_fix(-((1 << 20) - 1), (1 << 20) - 1);
}

#[kani::proof]
#[kani::unwind(22)]
fn c17_print_get_fix_every_value() {
    // every fix_word -2048 < v < 2048 in one query
    print_then_get_fix(-(i32::MAX), i32::MAX);
}
