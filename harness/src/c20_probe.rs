use texcraft_stdext::collections::groupingmap::{GroupingHashMap, GroupingVec, Scope};
use texcraft_stdext::verif_map::HashMap;

#[kani::proof]
#[kani::unwind(6)]
fn pd_vec_of_shim() {
    let mut g: Vec<HashMap<u8, u8>> = Vec::new();
    let v: u8 = kani::any();
    g.push(HashMap::new());
    g.last_mut().unwrap().insert(0, v);
    let m = g.pop().unwrap();
    assert!(m.get(&0) == Some(&v));
    std::mem::forget(g);
    std::mem::forget(m);
}

#[kani::proof]
#[kani::unwind(6)]
fn pe_vec_of_shim_intoiter() {
    let mut g: Vec<HashMap<u8, u8>> = Vec::new();
    let v: u8 = kani::any();
    g.push(HashMap::new());
    g.last_mut().unwrap().insert(0, v);
    let m = g.pop().unwrap();
    let mut s = 0u32;
    for (k, val) in m.into_iter() { s += val as u32; }
    assert!(s == v as u32);
    std::mem::forget(g);
}

#[kani::proof]
#[kani::unwind(6)]
fn pf_default_only() {
    let m: HashMap<u8, u8> = HashMap::new();
    assert!(m.get(&0).is_none());
}
