//! C15 — HBox::pack vs a transcription of TeX.2021.649-667 (hpack) with per-order glue totals.
use boxworks::ds::{self, Horizontal as H, HBox, PackWidth};
use boxworks::FontRepo;
use common::{Glue, GlueOrder, Scaled};

/// Font repository whose answer for the single character used is arbitrary (symbolic).
struct AnyFont {
    whd: Option<[Scaled; 3]>,
}
impl FontRepo for AnyFont {
    fn width(&self, _: char, _: u32) -> Option<Scaled> {
        self.whd.map(|x| x[0])
    }
    fn height(&self, _: char, _: u32) -> Option<Scaled> {
        self.whd.map(|x| x[1])
    }
    fn depth(&self, _: char, _: u32) -> Option<Scaled> {
        self.whd.map(|x| x[2])
    }
}

const LIM: i32 = 1 << 26; // keeps every running sum of <= 4 items (and the ratio products in i64) in range

fn amt() -> i32 {
    let v: i32 = kani::any();
    kani::assume(v > -LIM && v < LIM);
    v
}

fn order() -> GlueOrder {
    let k: u8 = kani::any();
    kani::assume(k < 4);
    match k {
        0 => GlueOrder::Normal,
        1 => GlueOrder::Fil,
        2 => GlueOrder::Fill,
        _ => GlueOrder::Filll,
    }
}

/// Reference state of TeX's hpack.
struct Ref {
    w: i64,
    h: i64,
    d: i64,
    stretch: [i64; 4],
    shrink: [i64; 4],
    nglue: u32,
    orders_seen: u32,
}

fn push_item(list: &mut Vec<H>, r: &mut Ref, font: &AnyFont) {
    let kind: u8 = kani::any();
    kani::assume(kind < 9);
    match kind {
        6 => {
            // nested vbox with a shift (same arm as hbox in TeX.2021.653)
            let (h, w, d, s) = (amt(), amt(), amt(), amt());
            let b = ds::VBox { height: Scaled(h), width: Scaled(w), depth: Scaled(d), shift_amount: Scaled(s), ..Default::default() };
            list.push(H::VBox(b));
            r.w += w as i64;
            if (h as i64 - s as i64) > r.h { r.h = h as i64 - s as i64; }
            if (d as i64 + s as i64) > r.d { r.d = d as i64 + s as i64; }
        }
        7 => {
            // an (empty) discretionary contributes nothing to the box (TeX.2021.651: only its break matters)
            list.push(H::Discretionary(ds::Discretionary::new()));
        }
        8 => {
            // a ligature is measured like its character (TeX.2021.654)
            list.push(H::Ligature(ds::Ligature { char: 'a', font: 0, original_chars: "fi".into(), includes_left_boundary: false, includes_right_boundary: false }));
            if let Some([w, h, d]) = font.whd {
                r.w += w.0 as i64;
                if (h.0 as i64) > r.h { r.h = h.0 as i64; }
                if (d.0 as i64) > r.d { r.d = d.0 as i64; }
            }
        }
        0 => {
            // glue
            let (w, st, sh) = (amt(), amt(), amt());
            let (sto, sho) = (order(), order());
            list.push(H::Glue(ds::Glue::from(Glue { width: Scaled(w), stretch: Scaled(st), stretch_order: sto, shrink: Scaled(sh), shrink_order: sho })));
            r.w += w as i64;
            r.stretch[sto as usize] += st as i64;
            r.shrink[sho as usize] += sh as i64;
            r.nglue += 1;
            r.orders_seen |= 1 << (sto as u32);
        }
        1 => {
            let w = amt();
            list.push(H::Kern(ds::Kern { width: Scaled(w), kind: ds::KernKind::Explicit }));
            r.w += w as i64;
        }
        2 => {
            let (h, w, d) = (amt(), amt(), amt());
            list.push(H::Rule(ds::Rule { height: Scaled(h), width: Scaled(w), depth: Scaled(d) }));
            r.w += w as i64;
            if (h as i64) > r.h { r.h = h as i64; }
            if (d as i64) > r.d { r.d = d as i64; }
        }
        3 => {
            // nested (empty) hbox with a shift
            let (h, w, d, s) = (amt(), amt(), amt(), amt());
            let mut b = HBox::new_null_box();
            b.height = Scaled(h);
            b.width = Scaled(w);
            b.depth = Scaled(d);
            b.shift_amount = Scaled(s);
            list.push(H::HBox(b));
            r.w += w as i64;
            if (h as i64 - s as i64) > r.h { r.h = h as i64 - s as i64; }
            if (d as i64 + s as i64) > r.d { r.d = d as i64 + s as i64; }
        }
        4 => {
            let p: i32 = kani::any();
            list.push(H::Penalty(ds::Penalty(p)));
        }
        _ => {
            list.push(H::Char(ds::Char { char: 'a', font: 0 }));
            if let Some([w, h, d]) = font.whd {
                r.w += w.0 as i64;
                if (h.0 as i64) > r.h { r.h = h.0 as i64; }
                if (d.0 as i64) > r.d { r.d = d.0 as i64; }
            }
        }
    }
}

fn highest_nonzero(t: &[i64; 4]) -> usize {
    // TeX.2021.659 / 665: filll, fill, fil, else normal
    if t[3] != 0 { 3 } else if t[2] != 0 { 2 } else if t[1] != 0 { 1 } else { 0 }
}

fn hpack_vs_tex<const N: usize>() {
    let font = AnyFont {
        whd: if kani::any() { Some([Scaled(amt()), Scaled(amt()), Scaled(amt())]) } else { None },
    };
    let mut list: Vec<H> = Vec::with_capacity(N);
    let mut r = Ref { w: 0, h: 0, d: 0, stretch: [0; 4], shrink: [0; 4], nglue: 0, orders_seen: 0 };
    let mut i = 0;
    while i < N {
        push_item(&mut list, &mut r, &font);
        i += 1;
    }
    let exact: bool = kani::any();
    let target = amt();
    let pw = if exact { PackWidth::Exact(Scaled(target)) } else { PackWidth::Additional(Scaled(target)) };
    let b = HBox::pack(&font, list, pw);

    // TeX.2021.657
    let width: i64 = if exact { target as i64 } else { r.w + target as i64 };
    let x = width - r.w;
    assert!(b.width.0 as i64 == width, "box width = requested width");
    assert!(b.height.0 as i64 == r.h, "height = maximum over items (shifted boxes adjusted)");
    assert!(b.depth.0 as i64 == r.d, "depth = maximum over items (shifted boxes adjusted)");
    let (num, den) = (b.glue_ratio.num.0 as i64, b.glue_ratio.den.0 as i64);
    assert!(den != 0, "glue ratio has a non-zero denominator");
    if x == 0 {
        // TeX.2021.657: glue_sign normal, glue_set 0
        assert!(num == 0 && b.glue_order == GlueOrder::Normal, "exact fit: box unset");
    } else if x > 0 {
        // TeX.2021.658-659
        let o = highest_nonzero(&r.stretch);
        if r.stretch[o] != 0 {
            assert!(b.glue_order as usize == o, "stretch order = highest order with non-zero total stretch");
            // The pair (excess, total) is what the code stores today; any other pair denoting the same ratio
            // is accepted too. Written as a disjunction so that the solver only has to reason about the
            // 64-bit products when the representation changes.
            assert!((num == x && den == r.stretch[o]) || num * r.stretch[o] == x * den, "ratio * total stretch = excess");
        } else {
            assert!(num == 0 && b.glue_order == GlueOrder::Normal, "no stretchability: box left unset");
        }
    } else {
        // TeX.2021.664-665
        let o = highest_nonzero(&r.shrink);
        if r.shrink[o] != 0 {
            assert!(b.glue_order as usize == o, "shrink order = highest order with non-zero total shrink");
            if o == 0 && r.shrink[0] < -x {
                // overfull: shrinks by exactly its shrinkability (ratio 1)
                assert!(num.abs() == den.abs(), "overfull box: glue ratio 1");
            } else {
                assert!((num == x && den == r.shrink[o]) || num.abs() * r.shrink[o].abs() == (-x) * den.abs(), "ratio * total shrink = deficit");
            }
        } else {
            assert!(num == 0, "no shrinkability: box left unset");
        }
    }
    kani::cover!(x > 0 && r.nglue >= 2 && r.stretch[1] == 0 && r.stretch[0] != 0 && (r.orders_seen & 2) != 0,
                 "fil stretch cancels to zero, finite stretch decides");
    kani::cover!(x < 0 && r.shrink[0] != 0 && r.shrink[0] < -x && r.shrink[1] == 0 && r.shrink[2] == 0 && r.shrink[3] == 0, "overfull box");
    kani::cover!(x > 0 && r.stretch[3] != 0, "filll stretch");
    kani::cover!(r.h > 0 && r.d > 0 && x == 0, "exact fit with height and depth");
    std::mem::forget(b);
}

#[kani::proof]
#[kani::unwind(6)]
fn c15_hpack_2_items() {
    hpack_vs_tex::<2>();
}

#[kani::proof]
#[kani::unwind(6)]
fn c15_hpack_3_items() {
    hpack_vs_tex::<3>();
}

#[kani::proof]
#[kani::unwind(6)]
fn c15_hpack_4_items() {
    hpack_vs_tex::<4>();
}

#[kani::proof]
#[kani::unwind(8)]
fn c15_hpack_5_items() {
    hpack_vs_tex::<5>();
}

#[kani::proof]
#[kani::unwind(8)]
fn c15_hpack_6_items() {
    hpack_vs_tex::<6>();
}
