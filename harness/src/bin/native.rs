//! Native runner: calls public kernels of /repo natively (plain rustc, no Kani) so that engine B can
//! (a) validate its MIR translation on concrete vectors and (b) replay solver models against the real
//! build before a violation is reported.
//!
//! stdin: one call per line, `name arg arg ...` (decimal integers). stdout: one line per call, the
//! result flattened to integers (`Option`/`Result`: tag first — None/Ok = 0 for Result::Ok, see
//! `flat_*`), or `panic`.
use std::io::BufRead;
use std::panic::catch_unwind;

#[cfg(feature = "p_common")]
use common::{Glue, GlueOrder, Scaled, ScaledUnit};

#[cfg(feature = "p_common")]
fn unit(k: i64) -> ScaledUnit {
    use ScaledUnit::*;
    [Point, Pica, Inch, BigPoint, Centimeter, Millimeter, DidotPoint, Cicero, ScaledPoint][k as usize]
}

#[cfg(feature = "p_common")]
fn order(k: i64) -> GlueOrder {
    [GlueOrder::Normal, GlueOrder::Fil, GlueOrder::Fill, GlueOrder::Filll][k as usize]
}

#[cfg(feature = "p_common")]
fn glue(a: &[i64]) -> Glue {
    Glue {
        width: Scaled(a[0] as i32),
        stretch: Scaled(a[1] as i32),
        stretch_order: order(a[2]),
        shrink: Scaled(a[3] as i32),
        shrink_order: order(a[4]),
    }
}

#[cfg(feature = "p_common")]
fn flat_glue(g: Glue) -> Vec<i64> {
    vec![g.width.0 as i64, g.stretch.0 as i64, g.stretch_order as i64, g.shrink.0 as i64, g.shrink_order as i64]
}

// Result<T, E>: [0, payload..] for Ok, [1] for Err.  Option<T>: [1, payload..] for Some, [0] for None.
fn flat_res<T, E>(r: Result<T, E>, f: impl Fn(T) -> Vec<i64>) -> Vec<i64> {
    match r {
        Ok(t) => {
            let mut v = vec![0];
            v.extend(f(t));
            v
        }
        Err(_) => vec![1],
    }
}
fn flat_opt<T>(r: Option<T>, f: impl Fn(T) -> Vec<i64>) -> Vec<i64> {
    match r {
        Some(t) => {
            let mut v = vec![1];
            v.extend(f(t));
            v
        }
        None => vec![0],
    }
}

fn dispatch(name: &str, a: &[i64]) -> Option<Vec<i64>> {
    #[cfg(feature = "p_common")]
    {
        let s = |k: usize| Scaled(a[k] as i32);
        let i = |k: usize| a[k] as i32;
        let one = |x: Scaled| vec![x.0 as i64];
        match name {
            "Scaled::from_integer" => return Some(flat_res(Scaled::from_integer(i(0)), one)),
            "Scaled::xn_over_d" => {
                return Some(flat_res(s(0).xn_over_d(i(1), i(2)), |(q, r)| vec![q.0 as i64, r.0 as i64]))
            }
            "Scaled::nx_plus_y" => return Some(flat_res(s(0).nx_plus_y(i(1), s(2)), one)),
            "Scaled::new" => return Some(flat_res(Scaled::new(i(0), s(1), unit(a[2])), one)),
            "Scaled::integer_part" => return Some(vec![s(0).integer_part() as i64]),
            "Scaled::fractional_part" => return Some(one(s(0).fractional_part())),
            "Scaled::abs" => return Some(one(s(0).abs())),
            "Scaled::wrapping_add" => return Some(one(s(0).wrapping_add(s(1)))),
            "Scaled::checked_add" => return Some(flat_opt(s(0).checked_add(s(1)), one)),
            "Scaled::wrapping_mul" => return Some(one(s(0).wrapping_mul(i(1)))),
            "Scaled::checked_mul" => return Some(flat_opt(s(0).checked_mul(i(1)), one)),
            "Scaled::checked_div" => return Some(flat_opt(s(0).checked_div(i(1)), one)),
            "Scaled::add" => return Some(one(s(0) + s(1))),
            "Scaled::sub" => return Some(one(s(0) - s(1))),
            "Scaled::mul" => return Some(one(s(0) * i(1))),
            "Scaled::div" => return Some(one(s(0) / i(1))),
            "Scaled::rem" => return Some(one(s(0) % i(1))),
            "Scaled::neg" => return Some(one(-s(0))),
            "Glue::wrapping_add" => return Some(flat_glue(glue(&a[0..5]).wrapping_add(glue(&a[5..10])))),
            "Glue::checked_add" => return Some(flat_opt(glue(&a[0..5]).checked_add(glue(&a[5..10])), flat_glue)),
            "Glue::checked_mul" => return Some(flat_opt(glue(&a[0..5]).checked_mul(i(5)), flat_glue)),
            "Glue::wrapping_mul" => return Some(flat_glue(glue(&a[0..5]).wrapping_mul(i(5)))),
            "Glue::checked_div" => return Some(flat_opt(glue(&a[0..5]).checked_div(i(5)), flat_glue)),
            _ => {}
        }
    }
    #[cfg(feature = "p_tfm")]
    {
        match name {
            "FixWord::to_scaled" => {
                return Some(vec![tfm::FixWord(a[0] as i32).to_scaled(tfm::FixWord(a[1] as i32)).0 as i64])
            }
            _ => {}
        }
    }
    #[cfg(feature = "p_knuthplass")]
    {
        // kp_pass_<KINDS> amounts.. line_width tolerance line_penalty adj_demerits rs_w rs_st rs_sh rs_order [looseness [ls_w ls_st ls_sh]]
        // KINDS over R (rule: w), G/F (glue finite/fil: w st sh), K/k (explicit/font kern: w), P (penalty: p)
        if let Some(kinds) = name.strip_prefix("kp_pass_") {
            use boxworks::ds;
            struct NoFonts;
            impl boxworks::FontRepo for NoFonts {
                fn width(&self, _: char, _: u32) -> Option<common::Scaled> { None }
                fn height(&self, _: char, _: u32) -> Option<common::Scaled> { None }
                fn depth(&self, _: char, _: u32) -> Option<common::Scaled> { None }
            }
            struct NoHyph;
            impl boxworks::Hyphenator for NoHyph {
                fn hyphenate(&self, _: &mut Vec<ds::Horizontal>) {}
            }
            let sc = |x: i64| common::Scaled(x as i32);
            let mut k = 0usize;
            let mut list: Vec<ds::Horizontal> = vec![];
            for c in kinds.chars() {
                match c {
                    'R' => {
                        list.push(ds::Horizontal::Rule(ds::Rule { height: sc(0), width: sc(a[k]), depth: sc(0) }));
                        k += 1;
                    }
                    'G' | 'F' => {
                        let g = common::Glue {
                            width: sc(a[k]),
                            stretch: sc(a[k + 1]),
                            stretch_order: if c == 'G' { common::GlueOrder::Normal } else { common::GlueOrder::Fil },
                            shrink: sc(a[k + 2]),
                            shrink_order: common::GlueOrder::Normal,
                        };
                        list.push(ds::Horizontal::Glue(ds::Glue { value: g, kind: ds::GlueKind::Normal }));
                        k += 3;
                    }
                    'K' | 'k' => {
                        let kind = if c == 'K' { ds::KernKind::Explicit } else { ds::KernKind::Normal };
                        list.push(ds::Horizontal::Kern(ds::Kern { width: sc(a[k]), kind }));
                        k += 1;
                    }
                    'P' => {
                        list.push(ds::Horizontal::Penalty(ds::Penalty(a[k] as i32)));
                        k += 1;
                    }
                    _ => return None,
                }
            }
            let (lw, tol, line_penalty, adj) = (a[k], a[k + 1] as i32, a[k + 2] as i32, a[k + 3] as i32);
            let rs = common::Glue {
                width: sc(a[k + 4]),
                stretch: sc(a[k + 5]),
                stretch_order: order(a[k + 7]),
                shrink: sc(a[k + 6]),
                shrink_order: common::GlueOrder::Normal,
            };
            let params = boxworks_knuthplass::Params {
                adj_demerits: adj,
                broken_penalty: 0,
                double_hyphen_demerits: 0,
                club_penalty: 0,
                emergency_stretch: sc(0),
                ex_hyphen_penalty: 0,
                final_hyphen_demerits: 0,
                final_widow_penalty: 0,
                hyphen_penalty: 0,
                inter_line_penalty: 0,
                left_skip: common::Glue {
                    width: sc(a.get(k + 9).copied().unwrap_or(0)),
                    stretch: sc(a.get(k + 10).copied().unwrap_or(0)),
                    stretch_order: common::GlueOrder::Normal,
                    shrink: sc(a.get(k + 11).copied().unwrap_or(0)),
                    shrink_order: common::GlueOrder::Normal,
                },
                line_penalty,
                looseness: a.get(k + 8).copied().unwrap_or(0) as i32,
                par_fill_skip: common::Glue::ZERO,
                pre_tolerance: 0,
                right_skip: rs,
                tolerance: tol,
            };
            let widths = [sc(lw)];
            let mut lb = boxworks_knuthplass::LineBreaker {
                params: &params,
                line_widths: &widths,
                line_indents: &[],
                debug_logger: None,
                hyphenator: &NoHyph,
            };
            let r = lb.break_line_single_attempt(&list, &NoFonts, tol, sc(0), false);
            return Some(flat_opt(r, |v| v.into_iter().map(|x| x as i64).collect()));
        }
    }
    let _ = a;
    let _ = name;
    None
}

fn main() {
    std::panic::set_hook(Box::new(|_| {}));
    let stdin = std::io::stdin();
    for line in stdin.lock().lines() {
        let line = line.unwrap();
        let mut it = line.split_whitespace();
        let Some(name) = it.next() else { continue };
        let args: Vec<i64> = it.map(|x| x.parse().unwrap()).collect();
        let name = name.to_string();
        let r = catch_unwind(move || dispatch(&name, &args));
        match r {
            Ok(Some(v)) => println!("{}", v.iter().map(|x| x.to_string()).collect::<Vec<_>>().join(" ")),
            Ok(None) => println!("unknown"),
            Err(_) => println!("panic"),
        }
    }
}
