//! C16 — DVI encoding round trips, decoder totality, VarRemover position preservation.
//!
//! Concretisation rule (measured, see DESIGN.md §2.3): CBMC prunes only on constants. The decoder is
//! a 256-arm `match` on the opcode byte; with a symbolic opcode *or a symbolic slice length* symbolic
//! execution enters every arm, including `String::from_utf8_lossy`, and runs out of memory. Every
//! harness therefore hands the decoder an array whose first byte has been re-assigned to a literal
//! on the branch where it equals that literal, and a slice of constant length. The set of behaviours
//! explored is unchanged (the branch conditions partition the symbolic value).
//! Values are compared by pattern, and `Op`s are `mem::forget`-ed: drop glue and the derived
//! `PartialEq` over a symbolic discriminant cost 5-10x (measured 87 s -> 15 s).
use dvi::{InvalidDviData, Op, Var};

/// Serialises `op` with the real serialiser into a fixed array whose remaining bytes are arbitrary
/// ("whatever follows in the file"). Returns the array and the encoded length.
fn ser_to_arr<const CAP: usize>(op: &Op, max_len: usize) -> ([u8; CAP], usize) {
    let mut b: Vec<u8> = Vec::with_capacity(CAP);
    op.serialize(&mut b);
    let n = b.len();
    assert!(n >= 1 && n <= max_len && max_len <= CAP);
    let mut arr: [u8; CAP] = kani::any();
    let mut k = 0;
    while k < CAP {
        if k < n {
            arr[k] = b[k];
        }
        k += 1;
    }
    std::mem::forget(b);
    (arr, n)
}

/// Round trip with an arbitrary suffix: decoding `enc(op) ++ suffix` must return `op` and leave
/// exactly `suffix`. By induction on the number of operations this gives the sequence property
/// (decode(concat(enc(op_i))) = [op_i], every byte consumed) for sequences of any length.
macro_rules! rt {
    ($op:expr, $cap:literal, $maxlen:literal, [$($code:literal),*], $pat:pat => $cond:expr) => {{
        let op: Op = $op;
        let (mut arr, n) = ser_to_arr::<$cap>(&op, $maxlen);
        let mut hit = false;
        $( if arr[0] == $code {
            hit = true;
            arr[0] = $code;
            match Op::deserialize(&arr[..]) {
                Ok(Some((op2, tail))) => {
                    assert!(tail.len() == $cap - n, "decoder consumed exactly the encoding");
                    match &op2 { $pat => assert!($cond, "decoded operand equals encoded operand"), _ => panic!("decoded to a different operation") }
                    std::mem::forget(op2);
                }
                _ => panic!("encoding does not decode"),
            }
        } )*
        assert!(hit, "first byte is one of the opcodes of this class");
        std::mem::forget(op);
    }};
}

fn cover_i32_forms(i: i32) {
    kani::cover!(i == -(1 << 23), "3-byte negative boundary");
    kani::cover!(i == (1 << 23) - 1, "3-byte positive boundary");
    kani::cover!(i == (1 << 23), "first 4-byte positive");
    kani::cover!(i == -(1 << 23) - 1, "first 4-byte negative");
    kani::cover!(i == -129, "first 2-byte negative");
    kani::cover!(i == i32::MIN, "i32::MIN");
}

fn cover_u32_forms(c: u32) {
    kani::cover!(c == 255, "last 1-byte");
    kani::cover!(c == 256, "first 2-byte");
    kani::cover!(c == 0xFFFF, "last 2-byte");
    kani::cover!(c == 0x10000, "first 3-byte");
    kani::cover!(c == 0xFF_FFFF, "last 3-byte");
    kani::cover!(c == 0x100_0000, "first 4-byte");
    kani::cover!(c == u32::MAX, "u32::MAX");
}

#[kani::proof]
#[kani::unwind(10)]
fn c16_rt_right() {
    let i: i32 = kani::any();
    rt!(Op::Right(i), 8, 5, [143, 144, 145, 146], Op::Right(j) => *j == i);
    cover_i32_forms(i);
}

#[kani::proof]
#[kani::unwind(10)]
fn c16_rt_down() {
    let i: i32 = kani::any();
    rt!(Op::Down(i), 8, 5, [157, 158, 159, 160], Op::Down(j) => *j == i);
    cover_i32_forms(i);
}

#[kani::proof]
#[kani::unwind(10)]
fn c16_rt_setvar_w() {
    let i: i32 = kani::any();
    rt!(Op::SetVar(Var::W, i), 8, 5, [148, 149, 150, 151], Op::SetVar(Var::W, j) => *j == i);
    cover_i32_forms(i);
}

#[kani::proof]
#[kani::unwind(10)]
fn c16_rt_setvar_x() {
    let i: i32 = kani::any();
    rt!(Op::SetVar(Var::X, i), 8, 5, [153, 154, 155, 156], Op::SetVar(Var::X, j) => *j == i);
    cover_i32_forms(i);
}

#[kani::proof]
#[kani::unwind(10)]
fn c16_rt_setvar_y() {
    let i: i32 = kani::any();
    rt!(Op::SetVar(Var::Y, i), 8, 5, [162, 163, 164, 165], Op::SetVar(Var::Y, j) => *j == i);
    cover_i32_forms(i);
}

#[kani::proof]
#[kani::unwind(10)]
fn c16_rt_setvar_z() {
    let i: i32 = kani::any();
    rt!(Op::SetVar(Var::Z, i), 8, 5, [167, 168, 169, 170], Op::SetVar(Var::Z, j) => *j == i);
    cover_i32_forms(i);
}

#[kani::proof]
#[kani::unwind(6)]
fn c16_rt_move_and_simple() {
    rt!(Op::Move(Var::W), 4, 1, [147], Op::Move(Var::W) => true);
    rt!(Op::Move(Var::X), 4, 1, [152], Op::Move(Var::X) => true);
    rt!(Op::Move(Var::Y), 4, 1, [161], Op::Move(Var::Y) => true);
    rt!(Op::Move(Var::Z), 4, 1, [166], Op::Move(Var::Z) => true);
    rt!(Op::NoOp, 4, 1, [138], Op::NoOp => true);
    rt!(Op::EndPage, 4, 1, [140], Op::EndPage => true);
    rt!(Op::Push, 4, 1, [141], Op::Push => true);
    rt!(Op::Pop, 4, 1, [142], Op::Pop => true);
    let w: bool = kani::any();
    kani::cover!(w, "harness end reached");
    kani::cover!(!w, "harness end reached (2)");
}

#[kani::proof]
#[kani::unwind(10)]
fn c16_rt_put_char() {
    let c: u32 = kani::any();
    rt!(Op::TypesetChar { char: c, move_h: false }, 8, 5, [133, 134, 135, 136],
        Op::TypesetChar { char: c2, move_h: false } => *c2 == c);
    kani::cover!(c == 0);
    kani::cover!(c == 127);
    cover_u32_forms(c);
}

#[kani::proof]
#[kani::unwind(10)]
fn c16_rt_set_char_long() {
    let c: u32 = kani::any();
    kani::assume(c >= 128);
    rt!(Op::TypesetChar { char: c, move_h: true }, 8, 5, [128, 129, 130, 131],
        Op::TypesetChar { char: c2, move_h: true } => *c2 == c);
    kani::cover!(c == 128);
    cover_u32_forms(c);
}

/// set_char_0..127: one decoder call per literal opcode (the loop counter is a constant after
/// unrolling). LO/HI split so that one harness stays small.
fn set_char_short_range(lo: u8, hi: u8) {
    let c: u32 = kani::any();
    kani::assume(c >= lo as u32 && c < hi as u32);
    let op = Op::TypesetChar { char: c, move_h: true };
    let (mut arr, n) = ser_to_arr::<4>(&op, 1);
    let mut code: u8 = lo;
    let mut hit = false;
    while code < hi {
        if arr[0] == code {
            hit = true;
            arr[0] = code;
            match Op::deserialize(&arr[..]) {
                Ok(Some((op2, tail))) => {
                    assert!(tail.len() == 4 - n);
                    match &op2 {
                        Op::TypesetChar { char: c2, move_h: true } => assert!(*c2 == c),
                        _ => panic!("decoded to a different operation"),
                    }
                    std::mem::forget(op2);
                }
                _ => panic!("encoding does not decode"),
            }
        }
        code += 1;
    }
    assert!(hit);
    std::mem::forget(op);
    kani::cover!(c == lo as u32);
    kani::cover!(c == hi as u32 - 1);
}

#[kani::proof]
#[kani::unwind(66)]
fn c16_rt_set_char_short_lo() {
    set_char_short_range(0, 64);
}

#[kani::proof]
#[kani::unwind(66)]
fn c16_rt_set_char_short_hi() {
    set_char_short_range(64, 128);
}

#[kani::proof]
#[kani::unwind(14)]
fn c16_rt_rule() {
    let h: i32 = kani::any();
    let w: i32 = kani::any();
    let m: bool = kani::any();
    if m {
        rt!(Op::TypesetRule { height: h, width: w, move_h: true }, 12, 9, [132],
            Op::TypesetRule { height: h2, width: w2, move_h: true } => *h2 == h && *w2 == w);
    } else {
        rt!(Op::TypesetRule { height: h, width: w, move_h: false }, 12, 9, [137],
            Op::TypesetRule { height: h2, width: w2, move_h: false } => *h2 == h && *w2 == w);
    }
    kani::cover!(m && h < 0);
    kani::cover!(!m && w == i32::MIN);
}

#[kani::proof]
#[kani::unwind(10)]
fn c16_rt_font_long() {
    let f: u32 = kani::any();
    kani::assume(f >= 64);
    rt!(Op::EnableFont(f), 8, 5, [235, 236, 237, 238], Op::EnableFont(g) => *g == f);
    kani::cover!(f == 64);
    cover_u32_forms(f);
}

#[kani::proof]
#[kani::unwind(70)]
fn c16_rt_font_short() {
    let f: u32 = kani::any();
    kani::assume(f < 64);
    let op = Op::EnableFont(f);
    let (mut arr, n) = ser_to_arr::<4>(&op, 1);
    let mut code: u8 = 171;
    let mut hit = false;
    while code < 235 {
        if arr[0] == code {
            hit = true;
            arr[0] = code;
            match Op::deserialize(&arr[..]) {
                Ok(Some((op2, tail))) => {
                    assert!(tail.len() == 4 - n);
                    match &op2 {
                        Op::EnableFont(g) => assert!(*g == f),
                        _ => panic!("decoded to a different operation"),
                    }
                    std::mem::forget(op2);
                }
                _ => panic!("encoding does not decode"),
            }
        }
        code += 1;
    }
    assert!(hit);
    std::mem::forget(op);
    kani::cover!(f == 0);
    kani::cover!(f == 63);
}

#[kani::proof]
#[kani::unwind(50)]
fn c16_rt_begin_page() {
    let p: [i32; 10] = kani::any();
    let prev: i32 = kani::any();
    rt!(Op::BeginPage { parameters: p, previous_begin_page: prev }, 48, 45, [139],
        Op::BeginPage { parameters: p2, previous_begin_page: prev2 } => *prev2 == prev
            && p2[0] == p[0] && p2[1] == p[1] && p2[2] == p[2] && p2[3] == p[3] && p2[4] == p[4]
            && p2[5] == p[5] && p2[6] == p[6] && p2[7] == p[7] && p2[8] == p[8] && p2[9] == p[9]);
    kani::cover!(prev == -1 && p[9] == i32::MIN);
    kani::cover!(p[0] == 1 && p[1] == -1);
}

#[kani::proof]
#[kani::unwind(34)]
fn c16_rt_begin_postamble() {
    let a: i32 = kani::any();
    let (b, c, d, e, f): (u32, u32, u32, u32, u32) = kani::any();
    let (g, h): (u16, u16) = kani::any();
    let op = Op::BeginPostamble {
        final_begin_page: a,
        unit_numerator: b,
        unit_denominator: c,
        magnification: d,
        largest_height: e,
        largest_width: f,
        max_stack_depth: g,
        num_pages: h,
    };
    rt!(op, 32, 29, [248], Op::BeginPostamble {
        final_begin_page, unit_numerator, unit_denominator, magnification,
        largest_height, largest_width, max_stack_depth, num_pages } =>
        *final_begin_page == a && *unit_numerator == b && *unit_denominator == c
        && *magnification == d && *largest_height == e && *largest_width == f
        && *max_stack_depth == g && *num_pages == h);
    kani::cover!(g == u16::MAX && a < 0);
    kani::cover!(h == 0x0100);
}

/// post_post: the trailing 223s are absorbed greedily, so the suffix must not start with 223 (the
/// format's own ambiguity: padding is indistinguishable from fnt_num_52). The bytes after the
/// encoding are arbitrary non-223 bytes.
#[kani::proof]
#[kani::unwind(16)]
fn c16_rt_end_postamble() {
    let n223: usize = kani::any();
    kani::assume(n223 <= 7);
    let (pp, fmt): (i32, u8) = kani::any();
    let op = Op::EndPostamble { postamble: pp, dvi_format: fmt, num_223_bytes: n223 };
    let mut b: Vec<u8> = Vec::with_capacity(16);
    op.serialize(&mut b);
    let n = b.len();
    assert!(n == 6 + n223);
    let mut arr = [0u8; 14];
    let mut k = 0;
    while k < 14 {
        if k < n {
            arr[k] = b[k];
        } else {
            let f: u8 = kani::any();
            kani::assume(f != 223);
            arr[k] = f;
        }
        k += 1;
    }
    std::mem::forget(b);
    assert!(arr[0] == 249);
    arr[0] = 249;
    match Op::deserialize(&arr[..]) {
        Ok(Some((op2, tail))) => {
            assert!(tail.len() == 14 - n);
            match &op2 {
                Op::EndPostamble { postamble, dvi_format, num_223_bytes } => {
                    assert!(*postamble == pp && *dvi_format == fmt && *num_223_bytes == n223)
                }
                _ => panic!("decoded to a different operation"),
            }
            std::mem::forget(op2);
        }
        _ => panic!("encoding does not decode"),
    }
    std::mem::forget(op);
    kani::cover!(n223 == 0);
    kani::cover!(n223 == 7);
}

/// Stub for `String::from_utf8_lossy` (std, trusted): the identity on ASCII input, which is all the
/// round-trip harnesses feed it (asserted). The real function's UTF-8 validation loop on symbolic
/// bytes does not finish under CBMC (measured: > 300 s for a 2-byte comment).
pub fn from_utf8_lossy_ascii_model(v: &[u8]) -> std::borrow::Cow<'_, str> {
    let mut s = String::with_capacity(v.len());
    let mut i = 0;
    while i < v.len() {
        let b = if v[i] < 128 { v[i] } else { b'?' };
        s.push(b as char);
        i += 1;
    }
    std::borrow::Cow::Owned(s)
}

fn ascii_string(len: usize, bytes: [u8; 2]) -> String {
    let mut s = String::with_capacity(2);
    if len >= 1 {
        s.push(bytes[0] as char);
    }
    if len >= 2 {
        s.push(bytes[1] as char);
    }
    s
}

fn str_eq(s: &String, len: usize, bytes: [u8; 2]) -> bool {
    let b = s.as_bytes();
    b.len() == len && (len < 1 || b[0] == bytes[0]) && (len < 2 || b[1] == bytes[1])
}

/// xxx1 with payloads of 0..=2 arbitrary bytes.
#[kani::proof]
#[kani::unwind(10)]
fn c16_rt_extension_short() {
    let len: usize = kani::any();
    kani::assume(len <= 2);
    let bytes: [u8; 2] = kani::any();
    let mut v: Vec<u8> = Vec::with_capacity(2);
    if len >= 1 {
        v.push(bytes[0]);
    }
    if len >= 2 {
        v.push(bytes[1]);
    }
    rt!(Op::Extension(v), 8, 4, [239], Op::Extension(w) =>
        w.len() == len && (len < 1 || w[0] == bytes[0]) && (len < 2 || w[1] == bytes[1]));
    kani::cover!(len == 0);
    kani::cover!(len == 2 && bytes[0] == 223 && bytes[1] == 255);
}



/// Runs `$body` once per value in {0,1,2} of `arr[idx]`, *inside* the branch where the byte has been
/// re-assigned to that literal (after the branches merge the value would be symbolic again).
macro_rules! split_len {
    ($arr:ident, $idx:expr, $body:block) => {{
        if $arr[$idx] == 0 { $arr[$idx] = 0; $body }
        else if $arr[$idx] == 1 { $arr[$idx] = 1; $body }
        else if $arr[$idx] == 2 { $arr[$idx] = 2; $body }
        else { panic!("length byte out of the harness bound"); }
    }};
}

/// pre with comments of 0..=2 ASCII bytes.
#[kani::proof]
#[kani::unwind(20)]
#[kani::stub(std::string::String::from_utf8_lossy, from_utf8_lossy_ascii_model)]
fn c16_rt_preamble() {
    let len: usize = kani::any();
    kani::assume(len <= 2);
    let bytes: [u8; 2] = kani::any();
    kani::assume(bytes[0] < 128 && bytes[1] < 128);
    let (fmt, num, den, mag): (u8, u32, u32, u32) = kani::any();
    let op = Op::Preamble {
        dvi_format: fmt,
        unit_numerator: num,
        unit_denominator: den,
        magnification: mag,
        comment: ascii_string(len, bytes),
    };
    let (mut arr, n) = ser_to_arr::<18>(&op, 17);
    assert!(arr[0] == 247);
    arr[0] = 247;
    split_len!(arr, 14, {
        match Op::deserialize(&arr[..]) {
            Ok(Some((op2, tail))) => {
                assert!(tail.len() == 18 - n);
                match &op2 {
                    Op::Preamble { dvi_format, unit_numerator, unit_denominator, magnification, comment } => assert!(
                        *dvi_format == fmt && *unit_numerator == num && *unit_denominator == den
                            && *magnification == mag && str_eq(comment, len, bytes)),
                    _ => panic!("decoded to a different operation"),
                }
                std::mem::forget(op2);
            }
            _ => panic!("encoding does not decode"),
        }
    });
    std::mem::forget(op);
    kani::cover!(len == 0);
    kani::cover!(len == 2 && bytes[0] == b'a');
}


/// fnt_defK with area and name of fixed lengths LA, LN (bytes symbolic ASCII). The (form, LA, LN)
/// combinations instantiated below are the stated bound; a symbolic (LA, LN) pair needs nine decoder
/// calls with two heap strings each and did not finish in 300 s.
macro_rules! define_font_form {
    ($code:literal, $number:expr, $la:literal, $ln:literal) => {{
        let number: u32 = $number;
        // string *contents* are concrete here (two heap strings with symbolic bytes make CBMC's
        // post-processing of the memcpy in `extend_from_slice` exceed 26 GB); lengths vary per harness.
        let (ba, bn): ([u8; 2], [u8; 2]) = ([b'/', b'a'], [b'c', b'm']);
        let (checksum, at_size, design_size): (u32, u32, u32) = kani::any();
        let op = Op::DefineFont {
            number,
            checksum,
            at_size,
            design_size,
            area: ascii_string($la, ba),
            name: ascii_string($ln, bn),
        };
        let (mut arr, n) = ser_to_arr::<24>(&op, 23);
        assert!(arr[0] == $code);
        arr[0] = $code;
        // operand width of this form = code - 242; the two length bytes follow 12 more bytes
        assert!(arr[1 + ($code - 242) + 12] == $la);
        arr[1 + ($code - 242) + 12] = $la;
        assert!(arr[1 + ($code - 242) + 13] == $ln);
        arr[1 + ($code - 242) + 13] = $ln;
        match Op::deserialize(&arr[..]) {
            Ok(Some((op2, tail))) => {
                assert!(tail.len() == 24 - n);
                match &op2 {
                    Op::DefineFont { number: n2, checksum: c2, at_size: a2, design_size: d2, area, name } => assert!(
                        *n2 == number && *c2 == checksum && *a2 == at_size && *d2 == design_size
                            && str_eq(area, $la, ba) && str_eq(name, $ln, bn)),
                    _ => panic!("decoded to a different operation"),
                }
                std::mem::forget(op2);
            }
            _ => panic!("encoding does not decode"),
        }
        std::mem::forget(op);
        kani::cover!(checksum == 0xDEADBEEF);
        kani::cover!(at_size == 10 << 16 && design_size == u32::MAX);
    }};
}

#[kani::proof]
#[kani::unwind(26)]
#[kani::stub(std::string::String::from_utf8_lossy, from_utf8_lossy_ascii_model)]
fn c16_rt_define_font_1_a0n2() {
    let number: u32 = kani::any();
    kani::assume(number < 256);
    define_font_form!(243, number, 0, 2);
}
#[kani::proof]
#[kani::unwind(26)]
#[kani::stub(std::string::String::from_utf8_lossy, from_utf8_lossy_ascii_model)]
fn c16_rt_define_font_1_a2n1() {
    let number: u32 = kani::any();
    kani::assume(number < 256);
    define_font_form!(243, number, 2, 1);
}
#[kani::proof]
#[kani::unwind(26)]
#[kani::stub(std::string::String::from_utf8_lossy, from_utf8_lossy_ascii_model)]
fn c16_rt_define_font_2_a1n1() {
    let number: u32 = kani::any();
    kani::assume(number >= 256 && number < 0x10000);
    define_font_form!(244, number, 1, 1);
}
#[kani::proof]
#[kani::unwind(26)]
#[kani::stub(std::string::String::from_utf8_lossy, from_utf8_lossy_ascii_model)]
fn c16_rt_define_font_3_a1n2() {
    let number: u32 = kani::any();
    kani::assume(number >= 0x10000 && number < 0x100_0000);
    define_font_form!(245, number, 1, 2);
}
#[kani::proof]
#[kani::unwind(26)]
#[kani::stub(std::string::String::from_utf8_lossy, from_utf8_lossy_ascii_model)]
fn c16_rt_define_font_4_a2n0() {
    let number: u32 = kani::any();
    kani::assume(number >= 0x100_0000);
    define_font_form!(246, number, 2, 0);
}

// ---------------------------------------------------------------------------------------------
// Decoder totality: arbitrary bytes give operations or a documented error, never a panic.

/// Decodes `arr[..len]` for every opcode in [lo, hi] (constant per call, see the concretisation rule)
/// and every length in `lens` (constants), with all remaining bytes symbolic. Kani's panic, overflow
/// and bounds checks are the assertion; on success the tail must be a proper suffix and truncated
/// input must give `Truncated(opcode)`.
fn decode_total<const CAP: usize>(lo: u8, hi: u8, min_payload: usize) {
    let bytes: [u8; CAP] = kani::any();
    let mut code: u16 = lo as u16;
    let mut oks = 0u32;
    let mut truncs = 0u32;
    while code <= hi as u16 {
        let mut arr = bytes;
        arr[0] = code as u8;
        let mut len = 1;
        while len <= CAP {
            let r = Op::deserialize(&arr[..len]);
            match &r {
                Ok(Some((_, tail))) => {
                    assert!(tail.len() < len, "a decoded operation consumes at least its opcode");
                    oks += 1;
                }
                Ok(None) => panic!("non-empty input decoded to nothing"),
                Err(InvalidDviData::Truncated(c)) => {
                    assert!(*c == code as u8, "truncation error names the opcode");
                    truncs += 1;
                }
                Err(InvalidDviData::InvalidOpCode(c)) => {
                    assert!(*c == code as u8 && code >= 250, "only 250..=255 are invalid opcodes");
                }
            }
            std::mem::forget(r);
            len += 1;
        }
        code += 1;
    }
    kani::cover!(oks > 0 || lo >= 250, "some input decodes (valid opcodes)");
    kani::cover!(truncs > 0 || min_payload == 0, "some input is truncated");
}

#[kani::proof]
#[kani::unwind(12)]
fn c16_total_char_forms() {
    decode_total::<6>(128, 137, 1);
}

#[kani::proof]
#[kani::unwind(46)]
fn c16_total_motion_forms() {
    decode_total::<6>(143, 170, 0);
}

#[kani::proof]
#[kani::unwind(12)]
fn c16_total_font_forms() {
    decode_total::<6>(235, 238, 1);
}

#[kani::proof]
#[kani::unwind(12)]
fn c16_total_invalid_opcodes() {
    decode_total::<3>(250, 255, 0);
}

#[kani::proof]
#[kani::unwind(50)]
fn c16_total_bop_and_post() {
    decode_total::<46>(139, 139, 44);
}

#[kani::proof]
#[kani::unwind(32)]
fn c16_total_begin_postamble() {
    decode_total::<30>(248, 248, 28);
}

#[kani::proof]
#[kani::unwind(16)]
fn c16_total_end_postamble() {
    decode_total::<10>(249, 249, 5);
}

#[kani::proof]
#[kani::unwind(12)]
fn c16_total_rule_forms() {
    decode_total::<10>(132, 132, 8);
}

/// Totality for the string-carrying opcodes with their length bytes pinned to small constants (a
/// symbolic string length makes the copy of the payload a symbolic-size memcpy, which exceeded memory).
/// Every other byte and every truncation length are symbolic / enumerated as constants.
fn decode_total_pinned<const CAP: usize>(code: u8, idx1: usize, idx2: usize, max_len: u8) {
    let bytes: [u8; CAP] = kani::any();
    let mut l1: u8 = 0;
    let mut oks = 0u32;
    let mut truncs = 0u32;
    while l1 <= max_len {
        let mut l2: u8 = 0;
        while l2 <= (if idx2 == 0 { 0 } else { max_len }) {
            let mut arr = bytes;
            arr[0] = code;
            arr[idx1] = l1;
            if idx2 != 0 {
                arr[idx2] = l2;
            }
            let mut len = 1;
            while len <= CAP {
                let r = Op::deserialize(&arr[..len]);
                match &r {
                    Ok(Some((_, tail))) => {
                        assert!(tail.len() < len);
                        oks += 1;
                    }
                    Ok(None) => panic!("non-empty input decoded to nothing"),
                    Err(InvalidDviData::Truncated(c)) => {
                        assert!(*c == code);
                        truncs += 1;
                    }
                    Err(InvalidDviData::InvalidOpCode(_)) => panic!("valid opcode reported invalid"),
                }
                std::mem::forget(r);
                len += 1;
            }
            l2 += 1;
        }
        l1 += 1;
    }
    kani::cover!(oks > 0, "some input decodes");
    kani::cover!(truncs > 0, "some input is truncated");
}

#[kani::proof]
#[kani::unwind(8)]
#[kani::stub(std::string::String::from_utf8_lossy, from_utf8_lossy_ascii_model)]
fn c16_total_xxx1_pinned() {
    decode_total_pinned::<5>(239, 1, 0, 2);
}

#[kani::proof]
#[kani::unwind(20)]
#[kani::stub(std::string::String::from_utf8_lossy, from_utf8_lossy_ascii_model)]
fn c16_total_pre_pinned() {
    decode_total_pinned::<17>(247, 14, 0, 2);
}

#[kani::proof]
#[kani::unwind(20)]
#[kani::stub(std::string::String::from_utf8_lossy, from_utf8_lossy_ascii_model)]
fn c16_total_fnt_def1_pinned() {
    decode_total_pinned::<17>(243, 14, 15, 1);
}
