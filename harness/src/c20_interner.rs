//! C20 (string interner) — equal keys iff equal strings, resolve(get_or_intern(s)) == s, with a
//! hasher under which *all* hashes collide (the type is generic in the hasher, so this is an
//! instantiation, not a stub). The dedup map is the cfg(kani) association list keyed by the hash.
use std::hash::{BuildHasherDefault, Hasher};
use std::num::NonZeroU32;
use texcraft_stdext::collections::interner::Interner;

#[derive(Default)]
struct ConstHasher;
impl Hasher for ConstHasher {
    fn finish(&self) -> u64 {
        12
    }
    fn write(&mut self, _: &[u8]) {}
}

/// Hash = first byte: collisions exactly for strings with the same first byte.
#[derive(Default)]
struct FirstByteHasher(u64);
impl Hasher for FirstByteHasher {
    fn finish(&self) -> u64 {
        self.0
    }
    fn write(&mut self, b: &[u8]) {
        if self.0 == 0 && !b.is_empty() {
            self.0 = b[0] as u64;
        }
    }
}

fn as_str(b: &[u8; 2], len: usize) -> &str {
    // ASCII letters only (assumed by the callers), so this is valid UTF-8
    unsafe { std::str::from_utf8_unchecked(if len == 0 { &b[..0] } else if len == 1 { &b[..1] } else { &b[..2] }) }
}

fn same(a: &[u8; 2], la: usize, b: &[u8; 2], lb: usize) -> bool {
    la == lb && (la < 1 || a[0] == b[0]) && (la < 2 || a[1] == b[1])
}

fn any_word<const L: usize>() -> [u8; 2] {
    let b: [u8; 2] = kani::any();
    kani::assume(b[0] == b'a' || b[0] == b'b' || b[0] == b'c');
    kani::assume(b[1] == b'a' || b[1] == b'b');
    b
}

/// Three strings of *fixed* lengths L1, L2, L3 (<= 2) with symbolic letters from {a, b}. Symbolic
/// lengths make the `String` buffer offsets symbolic and the SAT query did not finish in 15 min; the
/// length triples instantiated below are the stated bound.
fn interner_three<H: Hasher + Default, const L1: usize, const L2: usize, const L3: usize>() {
    let mut it: Interner<NonZeroU32, BuildHasherDefault<H>> = Default::default();
    let (s1, l1) = (any_word::<L1>(), L1);
    let (s2, l2) = (any_word::<L2>(), L2);
    let (s3, l3) = (any_word::<L3>(), L3);
    let k1 = it.get_or_intern(as_str(&s1, l1));
    let k2 = it.get_or_intern(as_str(&s2, l2));
    let k3 = it.get_or_intern(as_str(&s3, l3));
    assert!((k1 == k2) == same(&s1, l1, &s2, l2), "equal keys exactly for equal strings (1,2)");
    assert!((k1 == k3) == same(&s1, l1, &s3, l3), "equal keys exactly for equal strings (1,3)");
    assert!((k2 == k3) == same(&s2, l2, &s3, l3), "equal keys exactly for equal strings (2,3)");
    let r1 = it.resolve(k1).unwrap().as_bytes();
    assert!(r1.len() == l1 && (l1 < 1 || r1[0] == s1[0]) && (l1 < 2 || r1[1] == s1[1]), "resolve(k1) = s1");
    let r3 = it.resolve(k3).unwrap().as_bytes();
    assert!(r3.len() == l3 && (l3 < 1 || r3[0] == s3[0]) && (l3 < 2 || r3[1] == s3[1]), "resolve(k3) = s3");
    // one lookup only (each costs minutes of solver time): the *oldest* entry, which is the one a broken
    // collision chain loses
    assert!(it.get(as_str(&s1, l1)) == Some(k1), "get still finds the first string after two more were interned");
    kani::cover!(k1 != k2, "distinct strings");
    kani::cover!(k1 == k3 || k2 == k3 || k1 == k2, "a repeated string");
    kani::cover!(k1 != k2 && k2 != k3 && k1 != k3, "three distinct colliding strings");
    std::mem::forget(it);
}

#[kani::proof]
#[kani::unwind(8)]
fn c20_interner_all_collide_121() {
    interner_three::<ConstHasher, 1, 2, 1>();
}

/// Two strings of fixed lengths (quick tier).
fn interner_two<H: Hasher + Default, const L1: usize, const L2: usize>() {
    let mut it: Interner<NonZeroU32, BuildHasherDefault<H>> = Default::default();
    let (s1, l1) = (any_word::<L1>(), L1);
    let (s2, l2) = (any_word::<L2>(), L2);
    let k1 = it.get_or_intern(as_str(&s1, l1));
    let k2 = it.get_or_intern(as_str(&s2, l2));
    assert!((k1 == k2) == same(&s1, l1, &s2, l2), "equal keys exactly for equal strings");
    let r1 = it.resolve(k1).unwrap().as_bytes();
    assert!(r1.len() == l1 && (l1 < 1 || r1[0] == s1[0]) && (l1 < 2 || r1[1] == s1[1]), "resolve(k1) = s1");
    let r2 = it.resolve(k2).unwrap().as_bytes();
    assert!(r2.len() == l2 && (l2 < 1 || r2[0] == s2[0]) && (l2 < 2 || r2[1] == s2[1]), "resolve(k2) = s2");
    kani::cover!(k1 != k2, "distinct strings");
    kani::cover!(k1 == k2 || L1 != L2, "the same string twice (when the lengths allow it)");
    std::mem::forget(it);
}

#[kani::proof]
#[kani::unwind(8)]
fn c20_interner_two_collide_22() {
    interner_two::<ConstHasher, 2, 2>();
}

#[kani::proof]
#[kani::unwind(8)]
fn c20_interner_two_collide_12() {
    interner_two::<ConstHasher, 1, 2>();
}
