//! C20 (scoped map) — GroupingHashMap / GroupingVec vs a stack-of-snapshots model.
use texcraft_stdext::collections::groupingmap::{GroupingHashMap, GroupingVec, Scope};

const DEPTH: usize = 4;

/// Stack of snapshots over two keys. `stack[d]` is the visible map at depth d; depth 0 = global.
struct Model {
    stack: [[Option<u8>; 2]; DEPTH],
    depth: usize,
}

impl Model {
    fn new() -> Self {
        Model { stack: [[None; 2]; DEPTH], depth: 0 }
    }
    fn begin(&mut self) {
        self.stack[self.depth + 1] = self.stack[self.depth];
        self.depth += 1;
    }
    fn end(&mut self) -> bool {
        if self.depth == 0 {
            return false;
        }
        self.depth -= 1;
        true
    }
    fn insert(&mut self, k: usize, v: u8, global: bool) {
        if global {
            let mut d = 0;
            while d <= self.depth {
                self.stack[d][k] = Some(v);
                d += 1;
            }
        } else {
            self.stack[self.depth][k] = Some(v);
        }
    }
    fn get(&self, k: usize) -> Option<u8> {
        self.stack[self.depth][k]
    }
}



fn check_hash(m: &GroupingHashMap<u8, u8>, model: &Model) {
    assert!(m.get(&0u8).copied() == model.get(0), "key 0 visible value = model");
    assert!(m.get(&1u8).copied() == model.get(1), "key 1 visible value = model");
}

/// Runs every history *shape* (sequence of operation kinds begin / end / insert, K operations) whose
/// index lies in [lo, hi), each on a fresh container, with the key, value and scope of every insert
/// symbolic. The kinds are derived from a loop counter, i.e. they are constants for CBMC: a merging
/// `match` over a symbolic kind makes the group-stack depth symbolic and every loop over the group
/// stack then unrolls to the full unwind bound (measured: 4 operations did not finish in 11 min;
/// path-splitting by recursion: 15 min). The solver still decides each shape for all operands at
/// once, and the set of shapes [0, 3^K) is enumerated completely across the harnesses.
fn shapes_hash<const K: usize>(lo: usize, hi: usize, max_depth: usize) {
    let mut code = lo;
    while code < hi {
        let mut m: GroupingHashMap<u8, u8> = Default::default();
        let mut model = Model::new();
        let mut c = code;
        let mut i = 0;
        while i < K {
            let kind = c % 3;
            c /= 3;
            if kind == 0 {
                if model.depth >= max_depth {
                    break;
                }
                m.begin_group();
                model.begin();
            } else if kind == 1 {
                let r = m.end_group();
                let ok = model.end();
                assert!(r.is_ok() == ok, "end_group succeeds iff a group is open");
            } else {
                let v: u8 = kani::any();
                kani::assume(v == 1 || v == 2);
                let kb: bool = kani::any();
                let global: bool = kani::any();
                let scope = if global { Scope::Global } else { Scope::Local };
                if kb {
                    let e = m.insert(1u8, v, scope);
                    assert!(e == model.get(1).is_some(), "insert reports whether the key was visible");
                    model.insert(1, v, global);
                } else {
                    let e = m.insert(0u8, v, scope);
                    assert!(e == model.get(0).is_some(), "insert reports whether the key was visible");
                    model.insert(0, v, global);
                }
            }
            check_hash(&m, &model);
            i += 1;
        }
        std::mem::forget(m);
        code += 1;
    }
}

macro_rules! step_hash {
    ($m:ident, $model:ident, $max_depth:expr) => {{
        let op: u8 = kani::any();
        kani::assume(op < 4);
        let v: u8 = kani::any();
        kani::assume(v == 1 || v == 2);
        let kb: bool = kani::any();
        match op {
            0 => {
                kani::assume($model.depth < $max_depth);
                $m.begin_group();
                $model.begin();
            }
            1 => {
                let r = $m.end_group();
                let ok = $model.end();
                assert!(r.is_ok() == ok, "end_group succeeds iff a group is open");
            }
            2 => {
                if kb { $m.insert(1u8, v, Scope::Local); $model.insert(1, v, false); }
                else { $m.insert(0u8, v, Scope::Local); $model.insert(0, v, false); }
            }
            _ => {
                if kb { $m.insert(1u8, v, Scope::Global); $model.insert(1, v, true); }
                else { $m.insert(0u8, v, Scope::Global); $model.insert(0, v, true); }
            }
        }
        check_hash(&$m, &$model);
        op
    }};
}

#[kani::proof]
#[kani::unwind(5)]
fn c20_grouping_hashmap_merged4() {
    let mut m: GroupingHashMap<u8, u8> = Default::default();
    let mut model = Model::new();
    let o1 = step_hash!(m, model, 2);
    let o2 = step_hash!(m, model, 2);
    let o3 = step_hash!(m, model, 2);
    let o4 = step_hash!(m, model, 2);
    kani::cover!(o1 == 0 && o2 == 2 && o3 == 3 && o4 == 1, "begin, local, global, end");
    kani::cover!(model.depth == 2, "depth 2 reached");
    std::mem::forget(m);
}

#[kani::proof]
#[kani::unwind(5)]
fn c20_grouping_hashmap_merged6() {
    let mut m: GroupingHashMap<u8, u8> = Default::default();
    let mut model = Model::new();
    let o1 = step_hash!(m, model, 2);
    let o2 = step_hash!(m, model, 2);
    let o3 = step_hash!(m, model, 2);
    let o4 = step_hash!(m, model, 2);
    let o5 = step_hash!(m, model, 2);
    let o6 = step_hash!(m, model, 2);
    kani::cover!(o1 == 0 && o2 == 2 && o3 == 0 && o4 == 3 && o5 == 1 && o6 == 1, "begin, local, begin, global, end, end");
    kani::cover!(model.depth == 2, "depth 2 reached");
    std::mem::forget(m);
}

#[kani::proof]
#[kani::unwind(5)]
fn c20_grouping_hashmap_merged5() {
    let mut m: GroupingHashMap<u8, u8> = Default::default();
    let mut model = Model::new();
    let o1 = step_hash!(m, model, 2);
    let o2 = step_hash!(m, model, 2);
    let o3 = step_hash!(m, model, 2);
    let o4 = step_hash!(m, model, 2);
    let o5 = step_hash!(m, model, 2);
    kani::cover!(o1 == 0 && o2 == 0 && o3 == 2 && o4 == 3 && o5 == 1, "begin, begin, local, global, end");
    kani::cover!(model.depth == 2, "depth 2 reached");
    std::mem::forget(m);
}

/// NOT REGISTERED (out of memory under CBMC, see props/C20.py).
/// Full iteration replayed through FromIterator rebuilds a container with the same visible values
/// and the same behaviour when the open groups are closed (the structural core of VM checkpointing).
#[kani::proof]
#[kani::unwind(6)]
fn c20_grouping_iter_all_rebuild2() {
    use texcraft_stdext::collections::groupingmap::Item;
    let mut m: GroupingHashMap<u8, u8> = Default::default();
    let mut model = Model::new();
    let o2 = step_hash!(m, model, 2);
    let o3 = step_hash!(m, model, 2);
    // replay
    let mut m2: GroupingHashMap<u8, u8> = Default::default();
    let mut begins = 0usize;
    for item in m.iter_all() {
        match item {
            Item::BeginGroup => {
                m2.begin_group();
                begins += 1;
            }
            Item::Value((k, v)) => {
                m2.insert(k, *v, Scope::Local);
            }
        }
    }
    assert!(begins == model.depth, "one BeginGroup per open group");
    assert!(m2.get(&0u8).copied() == model.get(0) && m2.get(&1u8).copied() == model.get(1), "rebuilt map shows the same values");
    // closing the groups one by one must reveal the same values in both
    let mut d = 0;
    while d < 2 {
        let r1 = m.end_group();
        let r2 = m2.end_group();
        assert!(r1.is_ok() == r2.is_ok());
        let _ = model.end();
        assert!(m.get(&0u8) == m2.get(&0u8) && m.get(&1u8) == m2.get(&1u8), "same values after closing a group");
        assert!(m.get(&0u8).copied() == model.get(0) && m.get(&1u8).copied() == model.get(1));
        d += 1;
    }
    kani::cover!(o2 == 0 && o3 == 2 && begins >= 1, "local insert inside an open group before the rebuild");
    kani::cover!(begins == 2, "two open groups at the rebuild");
    kani::cover!(begins == 0 && model.get(0).is_some(), "global value only");
    std::mem::forget(m);
    std::mem::forget(m2);
}

/// Starts inside an open group that already holds a local binding (key and value symbolic), then 4
/// fully symbolic operations: reaches "local in the outer group, begin, global in the inner group,
/// end, end" (6 operations deep) at the cost of 4 symbolic steps.
#[kani::proof]
#[kani::unwind(5)]
fn c20_grouping_hashmap_prefix_local_then4() {
    let mut m: GroupingHashMap<u8, u8> = Default::default();
    let mut model = Model::new();
    m.begin_group();
    model.begin();
    let v0: u8 = kani::any();
    kani::assume(v0 == 1 || v0 == 2);
    if kani::any() {
        m.insert(1u8, v0, Scope::Local);
        model.insert(1, v0, false);
    } else {
        m.insert(0u8, v0, Scope::Local);
        model.insert(0, v0, false);
    }
    check_hash(&m, &model);
    let o1 = step_hash!(m, model, 2);
    let o2 = step_hash!(m, model, 2);
    let o3 = step_hash!(m, model, 2);
    let o4 = step_hash!(m, model, 2);
    kani::cover!(o1 == 0 && o2 == 3 && o3 == 1 && o4 == 1 && model.get(0).is_some(), "begin, global, end, end after a local binding in the outer group");
    kani::cover!(model.depth == 2, "depth 2 reached");
    std::mem::forget(m);
}

/// Depth 3: from inside two open groups (each holding a local binding of a symbolic key), 4 further
/// symbolic operations with up to three open groups.
#[kani::proof]
#[kani::unwind(5)]
fn c20_grouping_hashmap_depth3_prefix_then4() {
    let mut m: GroupingHashMap<u8, u8> = Default::default();
    let mut model = Model::new();
    let mut d = 0;
    while d < 2 {
        m.begin_group();
        model.begin();
        let v0: u8 = kani::any();
        kani::assume(v0 == 1 || v0 == 2);
        if kani::any() {
            m.insert(1u8, v0, Scope::Local);
            model.insert(1, v0, false);
        } else {
            m.insert(0u8, v0, Scope::Local);
            model.insert(0, v0, false);
        }
        d += 1;
    }
    check_hash(&m, &model);
    let o1 = step_hash!(m, model, 3);
    let o2 = step_hash!(m, model, 3);
    let o3 = step_hash!(m, model, 3);
    let o4 = step_hash!(m, model, 3);
    kani::cover!(o1 == 0 && o2 == 3 && o3 == 1 && o4 == 1, "begin (depth 3), global, end, end");
    kani::cover!(o1 == 3 && o2 == 1 && o3 == 1 && o4 == 2 && model.depth == 0, "global at depth 2, close both groups, local at depth 0");
    std::mem::forget(m);
}
