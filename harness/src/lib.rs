//! Kani proof harnesses over the real texcraft code (path dependencies on /repo).
#![allow(dead_code, unused_imports, clippy::all)]

#[cfg(all(kani, feature = "p_dvi"))]
mod c16_dvi;
#[cfg(all(kani, feature = "p_stdext"))]
mod c20_grouping;
#[cfg(all(kani, feature = "p_stdext"))]
mod c20_matcher;
#[cfg(all(kani, feature = "p_stdext"))]
mod c20_interner;
#[cfg(all(kani, feature = "p_boxworks"))]
mod c15_hpack;
#[cfg(all(kani, feature = "p_tfm"))]
mod c10_tfm;
#[cfg(all(kani, feature = "p_common"))]
mod c06_print;
#[cfg(all(kani, feature = "p_tfm"))]
mod c17_fixword_print;
