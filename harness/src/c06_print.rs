//! C06 (print/scan) — TeX's print_scaled guarantee through the real Display code and core::fmt:
//! every scaled value prints as exactly the decimal TeX.2021.103 prints (1..5 fraction digits) and scans back to the same value.
use common::{Scaled, ScaledUnit};
use std::fmt::Write;

struct Sink {
    buf: [u8; 16],
    n: usize,
}

impl Write for Sink {
    fn write_str(&mut self, s: &str) -> std::fmt::Result {
        let b = s.as_bytes();
        let mut i = 0;
        while i < b.len() {
            if self.n >= 16 {
                return Err(std::fmt::Error);
            }
            self.buf[self.n] = b[i];
            self.n += 1;
            i += 1;
        }
        Ok(())
    }
}

/// Prints `s` with the real `display_no_units`, then splits the text into sign, integer digits and
/// fraction digits and scans them back with the real `from_decimal_digits` and `Scaled::new`.
fn print_then_scan(s: Scaled) -> (Scaled, usize) {
    let mut sink = Sink { buf: [0; 16], n: 0 };
    write!(sink, "{}", s.display_no_units()).unwrap();
    let mut i = 0;
    let neg = sink.buf[0] == b'-';
    if neg {
        i = 1;
    }
    let mut int_part: i32 = 0;
    let mut int_digits = 0;
    while i < sink.n && sink.buf[i] != b'.' {
        assert!(sink.buf[i] >= b'0' && sink.buf[i] <= b'9', "integer part is made of digits");
        int_part = int_part * 10 + (sink.buf[i] - b'0') as i32;
        int_digits += 1;
        i += 1;
    }
    assert!(int_digits >= 1 && i < sink.n, "there is an integer part and a decimal point");
    i += 1;
    let mut digits = [0u8; 17];
    let mut nd = 0;
    while i < sink.n {
        assert!(sink.buf[i] >= b'0' && sink.buf[i] <= b'9', "fraction is made of digits");
        digits[nd] = sink.buf[i] - b'0';
        nd += 1;
        i += 1;
    }
    assert!(nd >= 1 && nd <= 5, "TeX prints between one and five fraction digits");
    // The digits are exactly the ones TeX.2021.103 (print_scaled) prints, not merely digits that scan back.
    {
        let a = if s.0 < 0 { -(s.0 as i64) } else { s.0 as i64 };
        assert!(int_part as i64 == a / 65536, "integer part printed = |s| div 2^16");
        let mut t: i64 = 10 * (a % 65536) + 5;
        let mut delta: i64 = 10;
        let mut k = 0;
        loop {
            if delta > 65536 {
                t = t + 0o100000 - 50000;
            }
            assert!(k < nd && digits[k] as i64 == t / 65536, "fraction digit = TeX's print_scaled digit");
            k += 1;
            t = 10 * (t % 65536);
            delta *= 10;
            if t <= delta {
                break;
            }
        }
        assert!(k == nd, "as many fraction digits as TeX prints");
    }
    let f = Scaled::from_decimal_digits(&digits[..nd]);
    let v = Scaled::new(int_part, f, ScaledUnit::Point).expect("a printed dimension scans without overflow");
    (if neg { -v } else { v }, nd)
}

#[kani::proof]
#[kani::unwind(18)]
fn c06_print_scan_every_fraction() {
    let f: i32 = kani::any();
    kani::assume(f >= 0 && f < 65536);
    let neg: bool = kani::any();
    let s = Scaled(if neg { -f } else { f });
    let (back, nd) = print_then_scan(s);
    assert!(back == s, "print then scan is the identity");
    kani::cover!(nd == 5, "five digits needed");
    kani::cover!(nd == 1 && f > 0, "one digit suffices");
    kani::cover!(neg && f == 1, "-1sp");
}

#[kani::proof]
#[kani::unwind(18)]
fn c06_print_scan_every_integer_part() {
    let ip: i32 = kani::any();
    kani::assume(ip >= 0 && ip < 16384);
    let frac: i32 = kani::any();
    kani::assume(frac == 0 || frac == 1 || frac == 32768 || frac == 65535);
    let neg: bool = kani::any();
    let raw = ip * 65536 + frac;
    let s = Scaled(if neg { -raw } else { raw });
    let (back, _) = print_then_scan(s);
    assert!(back == s, "print then scan is the identity");
    kani::cover!(ip == 16383 && frac == 65535 && !neg, "max_dimen");
    kani::cover!(ip == 9999 && neg, "four-digit negative");
}

/// The whole quantifier of the property in one query: every scaled value with |s| <= 2^30 - 1.
#[kani::proof]
#[kani::unwind(18)]
fn c06_print_scan_every_value() {
    let v: i32 = kani::any();
    kani::assume(v >= -((1 << 30) - 1) && v <= (1 << 30) - 1);
    let s = Scaled(v);
    let (back, nd) = print_then_scan(s);
    assert!(back == s, "print then scan is the identity");
    kani::cover!(nd == 5 && v < -65536, "five digits, negative, with an integer part");
    kani::cover!(v == (1 << 30) - 1, "max_dimen");
}
