//! C20 (substring matcher) — KMP `Matcher::new` + `Search::next` vs the naive definition.
use texcraft_stdext::algorithms::substringsearch::Matcher;
use texcraft_stdext::collections::nevec::Nevec;

/// Pattern of length M and text of length N over the alphabet {0, .., ALPHA-1}, all symbolic.
/// After every text element the matcher must answer exactly "the last M elements equal the pattern".
fn matcher_vs_naive<const M: usize, const N: usize>(alpha: u8) {
    let pat: [u8; M] = kani::any();
    let text: [u8; N] = kani::any();
    let mut i = 0;
    while i < M {
        kani::assume(pat[i] < alpha);
        i += 1;
    }
    i = 0;
    while i < N {
        kani::assume(text[i] < alpha);
        i += 1;
    }
    let mut nv = Nevec::with_capacity(pat[0], M);
    i = 1;
    while i < M {
        nv.push(pat[i]);
        i += 1;
    }
    let matcher = Matcher::new(nv);
    let mut search = matcher.start();
    let mut matches = 0u32;
    let mut overlap = false;
    let mut last_match: usize = usize::MAX;
    i = 0;
    while i < N {
        let got = search.next(&text[i]);
        let mut want = i + 1 >= M;
        if want {
            let mut j = 0;
            while j < M {
                if text[i + 1 - M + j] != pat[j] {
                    want = false;
                }
                j += 1;
            }
        }
        assert!(got == want, "match reported exactly where the pattern ends");
        if got {
            matches += 1;
            if last_match != usize::MAX && i - last_match < M {
                overlap = true;
            }
            last_match = i;
        }
        i += 1;
    }
    kani::cover!(matches >= 2, "two occurrences");
    kani::cover!(overlap || M == 1, "overlapping occurrences");
    kani::cover!(matches == 0, "no occurrence");
    std::mem::forget(matcher);
}

#[kani::proof]
#[kani::unwind(10)]
fn c20_matcher_m1_n6() {
    matcher_vs_naive::<1, 6>(2);
}

#[kani::proof]
#[kani::unwind(10)]
fn c20_matcher_m2_n6() {
    matcher_vs_naive::<2, 6>(2);
}

#[kani::proof]
#[kani::unwind(10)]
fn c20_matcher_m3_n7() {
    matcher_vs_naive::<3, 7>(2);
}

#[kani::proof]
#[kani::unwind(10)]
fn c20_matcher_m4_n8() {
    matcher_vs_naive::<4, 8>(2);
}

#[kani::proof]
#[kani::unwind(14)]
fn c20_matcher_m5_n12_abc() {
    matcher_vs_naive::<5, 12>(3);
}

#[kani::proof]
#[kani::unwind(14)]
fn c20_matcher_m3_n10_abc() {
    matcher_vs_naive::<3, 10>(3);
}
