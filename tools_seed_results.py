#!/usr/bin/env python3
"""Regenerates seeded/RESULTS.md from seeded/*/meta.json."""
import glob
import json
import os

HERE = os.path.dirname(os.path.abspath(__file__))
rows = []
for d in sorted(glob.glob(os.path.join(HERE, "seeded", "*", "meta.json"))):
    m = json.load(open(d))
    sid = m.get("seed_id") or os.path.basename(os.path.dirname(d))
    first = m.get("check_result_first_run", {})
    after = m.get("check_result_after_strengthening")
    det1 = m.get("detected_first_run")
    det2 = m.get("detected_after_strengthening")
    if det1:
        verdict = "caught"
    elif det2:
        verdict = "caught after strengthening"
    elif first.get("exit") == 2:
        verdict = "inconclusive (exit 2), not caught"
    else:
        verdict = "MISSED"
    by = ""
    src = after if (after and det2) else first
    for l in src.get("non_holding", []):
        if "violated" in l:
            by = l.split("]")[1].strip().split("  ")[0]
            break
    rows.append((sid, m.get("property"), m.get("what", "")[:160], m.get("needs", "")[:160], verdict, by, m.get("strengthening", ""), m.get("miss_reason", "")))

with open(os.path.join(HERE, "seeded", "RESULTS.md"), "w") as f:
    f.write("# Seeded changes and which check catches which\n\n")
    f.write("Each change was produced by a sub-agent in its own scratch worktree (property text + anchor files only), confirmed here "
            "(demo fails with it and passes without; the crate's suite passes with it) and run against the registered check with "
            "`tools_seed_eval.py` (apply to /repo, run, undo).\n\n")
    caught = sum(1 for r in rows if r[4].startswith("caught"))
    f.write(f"{caught} of {len(rows)} caught.\n\n")
    f.write("| seed | property | change | needs | result | caught by |\n|---|---|---|---|---|---|\n")
    for r in rows:
        f.write(f"| {r[0]} | {r[1]} | {r[2]} | {r[3]} | {r[4]} | {r[5]} |\n")
    f.write("\n## Notes on strengthening and misses\n\n")
    for r in rows:
        if r[6] or r[7]:
            f.write(f"* **{r[0]}**: {r[6]} {r[7]}\n")
print(open(os.path.join(HERE, "seeded", "RESULTS.md")).read()[:3000])
