#!/usr/bin/env python3
"""Confirm a seeded change (demo fails with it, passes without, crate tests still pass) in its scratch
worktree, then run the registered check(s) against it in /repo and undo it straight afterwards.

usage: tools_seed_eval.py <seed_dir> <worktree> <prop> <crate> [--append FILE] [--features F] [--tier quick] [--only X] [--skip-confirm]
"""
import argparse
import json
import os
import shutil
import subprocess
import sys
import time


def sh(cmd, cwd=None, timeout=3600):
    p = subprocess.run(cmd, shell=True, cwd=cwd, stdout=subprocess.PIPE, stderr=subprocess.STDOUT, timeout=timeout)
    return p.returncode, p.stdout.decode(errors="replace")


def main():
    ap = argparse.ArgumentParser()
    ap.add_argument("seed_dir")
    ap.add_argument("worktree")
    ap.add_argument("prop")
    ap.add_argument("crate")
    ap.add_argument("--append", default=None, help="append demo.rs to this source file instead of adding an integration test")
    ap.add_argument("--features", default="")
    ap.add_argument("--tier", default="quick")
    ap.add_argument("--only", default=None)
    ap.add_argument("--skip-confirm", action="store_true")
    ap.add_argument("--confirm-only", action="store_true")
    ap.add_argument("--demo-cmd", default=None, help="override the cargo test command that runs the demo")
    a = ap.parse_args()
    seed, wt = os.path.abspath(a.seed_dir), a.worktree
    patch = os.path.join(seed, "patch.diff")
    feat = f"--features {a.features}" if a.features else ""
    out = {"seed": seed, "property": a.prop}

    def place_demo():
        if a.append:
            tgt = os.path.join(wt, a.append)
            shutil.copyfile(tgt, tgt + ".seedbak")
            with open(tgt, "a") as f:
                f.write("\n" + open(os.path.join(seed, "demo.rs")).read())
            return a.demo_cmd or f"cargo test --offline -p {a.crate} {feat} seed_demo"
        d = os.path.join(wt, "crates", a.crate, "tests")
        os.makedirs(d, exist_ok=True)
        shutil.copyfile(os.path.join(seed, "demo.rs"), os.path.join(d, "seed_demo.rs"))
        return a.demo_cmd or f"cargo test --offline -p {a.crate} {feat} --test seed_demo"

    def remove_demo():
        if a.append:
            tgt = os.path.join(wt, a.append)
            if os.path.exists(tgt + ".seedbak"):
                shutil.move(tgt + ".seedbak", tgt)
        else:
            p = os.path.join(wt, "crates", a.crate, "tests", "seed_demo.rs")
            if os.path.exists(p):
                os.remove(p)

    if not a.skip_confirm:
        sh("git checkout -- crates", wt)
        # without the change: demo passes
        cmd = place_demo()
        rc0, o0 = sh(cmd, wt)
        remove_demo()
        # with the change: existing crate tests pass, demo fails
        rc, o = sh(f"git apply {patch}", wt)
        assert rc == 0, o
        rc_suite, o_suite = sh(f"cargo test --offline -p {a.crate} {feat}", wt)
        cmd = place_demo()
        rc1, o1 = sh(cmd, wt)
        remove_demo()
        sh("git checkout -- crates", wt)
        out["confirm"] = {"demo_without_change": "passes" if rc0 == 0 else "FAILS", "demo_with_change": "fails" if rc1 != 0 else "PASSES",
                          "crate_suite_with_change": "passes" if rc_suite == 0 else "FAILS", "demo_cmd": cmd}
        if rc0 != 0:
            out["confirm"]["log"] = o0[-800:]
        if rc_suite != 0:
            out["confirm"]["suite_log"] = o_suite[-800:]
    if a.confirm_only:
        print(json.dumps(out, indent=1))
        return
    # run the check against the change in /repo, undo straight afterwards
    rc, o = sh("git -C /repo status --porcelain")
    assert o.strip() == "", "/repo is not clean: " + o
    rc, o = sh(f"git -C /repo apply {patch}")
    assert rc == 0, o
    t0 = time.time()
    try:
        only = f"--only {a.only}" if a.only else ""
        rc, o = sh(f"./check {a.prop} --tier {a.tier} {only}", os.path.dirname(os.path.abspath(__file__)), timeout=7200)
    finally:
        sh("git -C /repo checkout -- .")
    out["check"] = {"cmd": f"./check {a.prop} --tier {a.tier} {only}".strip(), "exit": rc, "seconds": round(time.time() - t0),
                    "violation_lines": [l for l in o.splitlines() if l.startswith("VIOLATION")],
                    "non_holding": [l.strip()[:200] for l in o.splitlines() if l.startswith("  [") and "holds]" not in l]}
    out["detected"] = rc == 1 and bool(out["check"]["violation_lines"])
    print(json.dumps(out, indent=1))


main()
