"""Send one SMT-LIB2 query to z3 and cvc5; both must agree. `(error` output = inconclusive."""
import os
import re
import subprocess
import tempfile
import time

from . import term as tm

Z3 = os.environ.get("VERIF_Z3", "/usr/bin/z3")
CVC5 = os.environ.get("VERIF_CVC5", "cvc5")


def script(assertions, want_model=True):
    """SMT-LIB2 text. Terms are DAGs with heavy sharing (unrolled loops, ite chains): every shared
    non-leaf node becomes a `define-fun` so the text stays linear in the DAG size."""
    fv = {}
    for a in assertions:
        tm.free_vars(a, fv)
    # reference counts over the DAG (by object identity)
    refs = {}
    order = []  # post-order of distinct nodes
    seen = set()
    for a in assertions:
        stack = [(a, False)]
        while stack:
            x, done = stack.pop()
            if done:
                order.append(x)
                continue
            refs[id(x)] = refs.get(id(x), 0) + 1
            if id(x) in seen:
                continue
            seen.add(id(x))
            stack.append((x, True))
            if x.op not in ("const", "var"):
                for c in x.args:
                    stack.append((c, False))
    names = {}
    lines = ["(set-logic ALL)"]
    if want_model:
        lines.append("(set-option :produce-models true)")
    for name, sort in sorted(fv.items()):
        lines.append(f"(declare-const |{name}| {'Int' if sort == 'I' else 'Bool'})")

    def render(x):
        if id(x) in names:
            return names[id(x)]
        if x.op == "const":
            v = x.args[0]
            if x.sort == "B":
                return "true" if v else "false"
            return str(v) if v >= 0 else f"(- {-v})"
        if x.op == "var":
            return "|" + x.args[0] + "|"
        return "(" + x.op + " " + " ".join(render(c) for c in x.args) + ")"

    ufs = {}
    for x in order:
        if x.op.startswith("uf_"):
            ufs[x.op] = len(x.args)
    for nm, ar in sorted(ufs.items()):
        lines.append(f"(declare-fun {nm} ({' '.join(['Int'] * ar)}) Int)")
    k = 0
    for x in order:
        if x.op in ("const", "var"):
            continue
        if refs.get(id(x), 0) >= 2:
            body = render(x)
            k += 1
            nm = f"|d!{k}|"
            lines.append(f"(define-fun {nm} () {'Int' if x.sort == 'I' else 'Bool'} {body})")
            names[id(x)] = nm
    for a in assertions:
        lines.append(f"(assert {render(a)})")
    lines.append("(check-sat)")
    if want_model and fv:
        lines.append("(get-value (" + " ".join(f"|{n}|" for n in sorted(fv)) + "))")
    return "\n".join(lines) + "\n", fv


def _classify(out):
    first = out.strip().split("\n")[0].strip() if out.strip() else ""
    if first in ("sat", "unsat", "unknown"):
        # an `(error` after `unsat` is only get-value complaining that there is no model
        if "(error" in out and first == "sat":
            return "error"
        return first
    if "(error" in out:
        return "error"
    if "timeout" in out:
        return "timeout"
    return "error"


def _run_both(path, timeout, grace=20):
    """Run z3 and cvc5 concurrently. Once one of them has decided, the other gets `grace` more seconds."""
    cmds = {"z3": [Z3, f"-T:{int(timeout)}", path],
            "cvc5": [CVC5, "--lang", "smt2", f"--tlimit={int(timeout * 1000)}", "--produce-models", path]}
    procs = {k: subprocess.Popen(c, stdout=subprocess.PIPE, stderr=subprocess.STDOUT) for k, c in cmds.items()}
    t0 = time.time()
    res = {}
    deadline = t0 + timeout + 5
    while len(res) < 2:
        for k, p in procs.items():
            if k in res:
                continue
            if p.poll() is not None:
                out = p.stdout.read().decode(errors="replace")
                res[k] = (_classify(out), out, time.time() - t0)
                if res[k][0] in ("sat", "unsat"):
                    deadline = min(deadline, time.time() + grace)
        if len(res) < 2 and time.time() > deadline:
            for k, p in procs.items():
                if k not in res:
                    p.kill()
                    p.wait()
                    res[k] = ("timeout", "", time.time() - t0)
        if len(res) < 2:
            time.sleep(0.02)
    return res


def parse_model(out):
    model = {}
    for m in re.finditer(r"\(\|?([^\s|()]+)\|?\s+(\(- (\d+)\)|-?\d+|true|false)\)", out):
        name, raw, negd = m.group(1), m.group(2), m.group(3)
        if raw in ("true", "false"):
            model[name] = raw == "true"
        elif negd is not None:
            model[name] = -int(negd)
        else:
            model[name] = int(raw)
    return model


def check(assertions, timeout=60, want_model=True):
    """-> dict(verdict in sat/unsat/inconclusive, model, z3_s, cvc5_s, detail)"""
    text, fv = script(assertions, want_model)
    with tempfile.NamedTemporaryFile("w", suffix=".smt2", delete=False, dir=os.environ.get("VERIF_TMP", None)) as f:
        f.write(text)
        path = f.name
    try:
        both = _run_both(path, timeout)
        rz, oz, tz = both["z3"]
        rc, oc, tc = both["cvc5"]
    finally:
        os.unlink(path)
    res = {"z3": rz, "cvc5": rc, "z3_s": tz, "cvc5_s": tc, "model": None, "size": len(text)}
    if rz == rc and rz in ("sat", "unsat"):
        res["verdict"] = rz
        if rz == "sat":
            res["model"] = parse_model(oz) or parse_model(oc)
        return res
    # one solver decided, the other timed out / unknown: accept only if the other did not contradict;
    # still recorded as single-solver in the evidence
    if {rz, rc} & {"sat"} and {rz, rc} & {"unsat"}:
        res["verdict"] = "inconclusive"
        res["detail"] = f"solvers disagree: z3={rz} cvc5={rc}"
        return res
    if "error" in (rz, rc):
        res["verdict"] = "inconclusive"
        res["detail"] = f"solver error: z3={rz} cvc5={rc}: " + (oz if rz == "error" else oc)[:200].replace("\n", " ")
        return res
    decided = [r for r in (rz, rc) if r in ("sat", "unsat")]
    if decided:
        res["verdict"] = decided[0]
        res["single_solver"] = "z3" if rz in ("sat", "unsat") else "cvc5"
        if decided[0] == "sat":
            res["model"] = parse_model(oz if rz == "sat" else oc)
        return res
    res["verdict"] = "inconclusive"
    res["detail"] = f"no solver decided within {timeout}s: z3={rz} cvc5={rc}"
    return res
