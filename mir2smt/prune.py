"""Feasibility pruning at forks: one persistent `z3 -in` process; every distinct sub-term is defined once
(global define-fun), each query asserts the path condition inside push/pop. `unknown`/timeouts keep the
branch (pruning only ever removes branches the solver *proved* infeasible, so it cannot hide a path)."""
import os
import subprocess

from . import term as tm

Z3 = os.environ.get("VERIF_Z3", "/usr/bin/z3")


class Pruner:
    def __init__(self, per_query_ms=3000, budget_s=1800):
        import time as _t
        self.per_query_ms = per_query_ms
        self.budget_s = budget_s
        self.t0 = _t.time()
        self.queries = 0
        self.pruned = 0
        self.unknown = 0
        self.restarts = 0
        self.cache = {}
        self._start()

    def _start(self):
        self.p = subprocess.Popen([Z3, "-in"], stdin=subprocess.PIPE, stdout=subprocess.PIPE, stderr=subprocess.STDOUT, text=True, bufsize=1)
        self.names = {}   # term (structural) -> name / literal
        self.ufs = set()
        self._send("(set-logic ALL)\n(set-option :timeout %d)\n" % self.per_query_ms)

    def _send(self, s):
        self.p.stdin.write(s)

    def name(self, t):
        if t in self.names:
            return self.names[t]
        out = []
        stack = [(t, False)]
        while stack:
            x, done = stack.pop()
            if x in self.names:
                continue
            if x.op == "const":
                v = x.args[0]
                self.names[x] = ("true" if v else "false") if x.sort == "B" else (str(v) if v >= 0 else f"(- {-v})")
                continue
            if x.op == "var":
                nm = "|" + x.args[0] + "|"
                out.append(f"(declare-const {nm} {'Int' if x.sort == 'I' else 'Bool'})")
                self.names[x] = nm
                continue
            if not done:
                stack.append((x, True))
                for c in x.args:
                    if c not in self.names:
                        stack.append((c, False))
                continue
            if x.op.startswith("uf_") and x.op not in self.ufs:
                self.ufs.add(x.op)
                out.append(f"(declare-fun {x.op} ({' '.join(['Int'] * len(x.args))}) Int)")
            nm = f"|p!{len(self.names)}|"
            out.append(f"(define-fun {nm} () {'Int' if x.sort == 'I' else 'Bool'} ({x.op} {' '.join(self.names[c] for c in x.args)}))")
            self.names[x] = nm
        if out:
            self._send("\n".join(out) + "\n")
        return self.names[t]

    def feasible(self, pc, cond):
        """False only if z3 proved pc /\\ cond unsatisfiable."""
        key = (tuple(sorted(set(hash(c) for c in pc))), hash(cond))
        if key in self.cache:
            return self.cache[key]
        import time as _t
        if _t.time() - self.t0 > self.budget_s:
            from .execmir import Unsupported
            raise Unsupported(f"pruning time budget of {self.budget_s}s exceeded")
        # the solver process accumulates every definition: restart it from time to time, and once if it dies
        if len(self.names) > 400000:
            self.close()
            self.restarts += 1
            self._start()
        try:
            r = self._ask(pc, cond)
        except (RuntimeError, BrokenPipeError, OSError):
            self.close()
            self.restarts += 1
            self._start()
            r = self._ask(pc, cond)
        self.cache[key] = r
        return r

    def _ask(self, pc, cond):
        ns = [self.name(c) for c in pc] + [self.name(cond)]
        self._send("(push)\n" + "\n".join(f"(assert {n})" for n in dict.fromkeys(ns)) + "\n(check-sat)\n(pop)\n")
        self.p.stdin.flush()
        self.queries += 1
        # z3's own :timeout is not honoured by every tactic: a wall-clock guard on top of it
        import select
        ready, _, _ = select.select([self.p.stdout], [], [], max(10.0, 4 * self.per_query_ms / 1000.0))
        if not ready:
            if os.environ.get("VERIF_PRUNE_DEBUG"):
                from . import solve
                text, _ = solve.script(list(pc) + [cond], False)
                with open(os.path.join(os.environ["VERIF_PRUNE_DEBUG"], f"prune_timeout_{self.queries}.smt2"), "w") as f:
                    f.write(text)
            self.unknown += 1
            self.close()
            self.restarts += 1
            self._start()
            return True   # no answer: the branch is kept
        line = self.p.stdout.readline().strip()
        while line.startswith("(error") or line == "":
            if line == "" and self.p.poll() is not None:
                raise RuntimeError("pruning solver died")
            if line.startswith("(error"):
                raise RuntimeError("pruning solver error: " + line)
            line = self.p.stdout.readline().strip()
        if line == "unsat":
            self.pruned += 1
            r = False
        else:
            if line != "sat":
                self.unknown += 1
            r = True
        return r

    def close(self):
        try:
            self.p.stdin.close()
            self.p.kill()
            self.p.wait()
        except Exception:
            pass
