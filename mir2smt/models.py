"""Models of the core/std functions that the encoded kernels call (trusted base, listed in evidence).

Every model returns a list of (state, value) like Executor.exec_fn; models fork the path where the
real function's result shape depends on the operands (checked_*, try_into, cmp), so enum tags that
carry payloads stay concrete on every path.
"""
import re

from . import term as tm
from .term import I, B, T
from .execmir import Agg, Enum, Ref, Opaque, Unsupported, INT_TYPES, Overflowed

MODELS = []
NAMES = []


def model(pattern):
    def deco(f):
        MODELS.append((re.compile(pattern), f))
        NAMES.append(pattern)
        return f
    return deco


def _fork2(st, cond):
    """-> [(state, True/False)] for feasible branches."""
    if cond.is_const:
        return [(st, bool(cond.val))]
    from . import execmir as _em
    if _em.PRUNER is not None:
        ft, ff = _em.feasible(st, cond), _em.feasible(st, tm.not_(cond))
        if ft and not ff:
            st.assume(cond)
            return [(st, True)]
        if ff and not ft:
            st.assume(tm.not_(cond))
            return [(st, False)]
        if not ft and not ff:
            return []
    s2 = st.fork()
    st.assume(cond)
    s2.assume(tm.not_(cond))
    return [(st, True), (s2, False)]


def _int_of(name):
    return INT_TYPES[name]


def _val(ex, v):
    v = ex.deref(v)
    if isinstance(v, Enum):
        return v.tag
    return v


# ---- conversions
@model(r"^<([iu](?:8|16|32|64|128|size)) as (?:std::convert::)?Into<([iu](?:8|16|32|64|128|size))>>::into$")
def m_into(ex, m, args, tys, st, fn):
    return [(st, args[0])]


@model(r"^<([iu](?:8|16|32|64|128|size)) as (?:std::convert::)?From<([iu](?:8|16|32|64|128|size)|bool)>>::from$")
def m_from(ex, m, args, tys, st, fn):
    v = args[0]
    if m.group(2) == "bool":
        return [(st, tm.ite(v, I(1), I(0)))]
    return [(st, v)]


@model(r"^<([iu](?:8|16|32|64|128|size)) as (?:std::convert::)?TryInto<([iu](?:8|16|32|64|128|size))>>::try_into$")
def m_try_into(ex, m, args, tys, st, fn):
    bits, signed = _int_of(m.group(2))
    out = []
    for s, ok in _fork2(st, tm.in_range(args[0], bits, signed)):
        out.append((s, Enum(0, {0: [args[0]]}, "Result") if ok else Enum(1, {1: [Agg([])]}, "Result")))
    return out


@model(r"^<([iu](?:8|16|32|64|128|size)) as (?:std::convert::)?TryFrom<([iu](?:8|16|32|64|128|size))>>::try_from$")
def m_try_from(ex, m, args, tys, st, fn):
    bits, signed = _int_of(m.group(1))
    out = []
    for s, ok in _fork2(st, tm.in_range(args[0], bits, signed)):
        out.append((s, Enum(0, {0: [args[0]]}, "Result") if ok else Enum(1, {1: [Agg([])]}, "Result")))
    return out


# ---- Option / Result plumbing
def _concrete_tag(v, what):
    if not isinstance(v, Enum) or not v.tag.is_const:
        raise Unsupported(f"{what} on enum with symbolic tag")
    return v.tag.val


@model(r"^(?:std::result::)?Result::<.*>::(expect|unwrap)$")
def m_result_unwrap(ex, m, args, tys, st, fn):
    t = _concrete_tag(args[0], "Result::unwrap")
    if t == 0:
        return [(st, args[0].pay[0][0])]
    msg = "called `Result::%s()` on an `Err` value" % m.group(1)
    ex.obligations.append({"kind": "panic", "msg": msg, "pc": list(st.pc), "fn": fn.path})
    return []


@model(r"^(?:std::option::)?Option::<.*>::(expect|unwrap)$")
def m_option_unwrap(ex, m, args, tys, st, fn):
    t = _concrete_tag(args[0], "Option::unwrap")
    if t == 1:
        return [(st, args[0].pay[1][0])]
    ex.obligations.append({"kind": "panic", "msg": "called `Option::%s()` on a `None` value" % m.group(1), "pc": list(st.pc), "fn": fn.path})
    return []


@model(r"^(?:std::result::)?Result::<.*>::ok$")
def m_result_ok(ex, m, args, tys, st, fn):
    t = _concrete_tag(args[0], "Result::ok")
    if t == 0:
        return [(st, Enum(1, {1: [args[0].pay[0][0]]}, "Option"))]
    return [(st, Enum(0, {}, "Option"))]


@model(r"^(?:std::option::)?Option::<.*>::(is_some|is_none)$")
def m_option_is(ex, m, args, tys, st, fn):
    v = ex.deref(args[0])
    r = tm.eq(v.tag, I(1))
    return [(st, r if m.group(1) == "is_some" else tm.not_(r))]


@model(r"^(?:std::result::)?Result::<.*>::(is_ok|is_err)$")
def m_result_is(ex, m, args, tys, st, fn):
    v = ex.deref(args[0])
    r = tm.eq(v.tag, I(0))
    return [(st, r if m.group(1) == "is_ok" else tm.not_(r))]


@model(r"^(?:std::option::)?Option::<.*>::ok_or::<.*>$")
def m_option_ok_or(ex, m, args, tys, st, fn):
    t = _concrete_tag(args[0], "Option::ok_or")
    if t == 1:
        return [(st, Enum(0, {0: [args[0].pay[1][0]]}, "Result"))]
    return [(st, Enum(1, {1: [args[1]]}, "Result"))]


@model(r"^(?:std::result::)?Result::<.*>::unwrap_or$")
def m_result_unwrap_or(ex, m, args, tys, st, fn):
    t = _concrete_tag(args[0], "Result::unwrap_or")
    return [(st, args[0].pay[0][0] if t == 0 else args[1])]


@model(r"^(?:std::option::)?Option::<.*>::unwrap_or$")
def m_option_unwrap_or(ex, m, args, tys, st, fn):
    t = _concrete_tag(args[0], "Option::unwrap_or")
    return [(st, args[0].pay[1][0] if t == 1 else args[1])]


@model(r"^<(?:std::result::)?Result<.*> as (?:std::ops::)?Try>::branch$")
def m_result_branch(ex, m, args, tys, st, fn):
    t = _concrete_tag(args[0], "Try::branch")
    if t == 0:
        return [(st, Enum(0, {0: [args[0].pay[0][0]]}, "ControlFlow"))]
    return [(st, Enum(1, {1: [Enum(1, {1: list(args[0].pay[1])}, "Result")]}, "ControlFlow"))]


@model(r"^<(?:std::option::)?Option<.*> as (?:std::ops::)?Try>::branch$")
def m_option_branch(ex, m, args, tys, st, fn):
    t = _concrete_tag(args[0], "Try::branch")
    if t == 1:
        return [(st, Enum(0, {0: [args[0].pay[1][0]]}, "ControlFlow"))]
    return [(st, Enum(1, {1: [Enum(0, {}, "Option")]}, "ControlFlow"))]


@model(r"^<(?:std::result::)?Result<.*> as (?:std::ops::)?FromResidual<.*>>::from_residual$")
def m_result_from_residual(ex, m, args, tys, st, fn):
    v = args[0]
    if not isinstance(v, Enum):
        raise Unsupported("from_residual arg")
    return [(st, Enum(1, {1: list(v.pay.get(1, [Agg([])]))}, "Result"))]


@model(r"^<(?:std::option::)?Option<.*> as (?:std::ops::)?FromResidual<.*>>::from_residual$")
def m_option_from_residual(ex, m, args, tys, st, fn):
    return [(st, Enum(0, {}, "Option"))]


# ---- integer methods
@model(r"^(?:core|std)::num::<impl ([iu](?:8|16|32|64|128|size))>::(checked_add|checked_sub|checked_mul)$")
def m_checked_arith(ex, m, args, tys, st, fn):
    bits, signed = _int_of(m.group(1))
    a, b = args
    raw = {"checked_add": tm.add, "checked_sub": tm.sub, "checked_mul": tm.mul}[m.group(2)](a, b)
    out = []
    for s, ok in _fork2(st, tm.in_range(raw, bits, signed)):
        out.append((s, Enum(1, {1: [raw]}, "Option") if ok else Enum(0, {}, "Option")))
    return out


@model(r"^(?:core|std)::num::<impl ([iu](?:8|16|32|64|128|size))>::(checked_div|checked_rem)$")
def m_checked_div(ex, m, args, tys, st, fn):
    bits, signed = _int_of(m.group(1))
    a, b = args
    lo, _hi = tm.ty_range(bits, signed)
    bad = tm.eq(b, I(0))
    if signed:
        bad = tm.or_(bad, tm.and_(tm.eq(a, I(lo)), tm.eq(b, I(-1))))
    out = []
    for s, isbad in _fork2(st, bad):
        if isbad:
            out.append((s, Enum(0, {}, "Option")))
        else:
            if m.group(2) == "checked_div":
                r = tm.tdiv(a, b) if signed else tm.ediv(a, b)
            else:
                r = tm.trem(a, b) if signed else tm.emod(a, b)
            out.append((s, Enum(1, {1: [r]}, "Option")))
    return out


@model(r"^(?:core|std)::num::<impl ([iu](?:8|16|32|64|128|size))>::(div_euclid|rem_euclid)$")
def m_euclid(ex, m, args, tys, st, fn):
    bits, signed = _int_of(m.group(1))
    a, b = args
    lo, _hi = tm.ty_range(bits, signed)
    bad = tm.eq(b, I(0))
    if signed:
        bad = tm.or_(bad, tm.and_(tm.eq(a, I(lo)), tm.eq(b, I(-1))))
    if not (bad.is_const and not bad.val):
        ex.obligations.append({"kind": "panic", "msg": m.group(2) + " by zero or with overflow", "pc": list(st.pc) + [bad], "fn": fn.path})
    if bad.is_const and bad.val:
        return []
    st.assume(tm.not_(bad))
    return [(st, tm.ediv(a, b) if m.group(2) == "div_euclid" else tm.emod(a, b))]


@model(r"^(?:core|std)::num::<impl ([iu](?:8|16|32|64|128|size))>::checked_neg$")
def m_checked_neg(ex, m, args, tys, st, fn):
    bits, signed = _int_of(m.group(1))
    raw = tm.neg(args[0])
    out = []
    for s, ok in _fork2(st, tm.in_range(raw, bits, signed)):
        out.append((s, Enum(1, {1: [raw]}, "Option") if ok else Enum(0, {}, "Option")))
    return out


@model(r"^(?:core|std)::num::<impl ([iu](?:8|16|32|64|128|size))>::(wrapping_add|wrapping_sub|wrapping_mul)$")
def m_wrapping(ex, m, args, tys, st, fn):
    bits, signed = _int_of(m.group(1))
    a, b = args
    raw = {"wrapping_add": tm.add, "wrapping_sub": tm.sub, "wrapping_mul": tm.mul}[m.group(2)](a, b)
    return [(st, tm.wrap(raw, bits, signed))]


@model(r"^(?:core|std)::num::<impl ([iu](?:8|16|32|64|128|size))>::wrapping_neg$")
def m_wrapping_neg(ex, m, args, tys, st, fn):
    bits, signed = _int_of(m.group(1))
    return [(st, tm.wrap(tm.neg(args[0]), bits, signed))]


@model(r"^(?:core|std)::num::<impl (i(?:8|16|32|64|128|size))>::abs$")
def m_abs(ex, m, args, tys, st, fn):
    # overflow-checks=on: i32::MIN.abs() panics ("attempt to negate with overflow"); release wraps to MIN
    bits, signed = _int_of(m.group(1))
    a = args[0]
    lo, _ = tm.ty_range(bits, signed)
    is_min = tm.eq(a, I(lo))
    if not (is_min.is_const and not is_min.val):
        ex.obligations.append({"kind": "panic", "msg": f"{m.group(1)}::abs() of MIN overflows (panics with overflow checks, wraps to MIN without)",
                               "pc": list(st.pc) + [is_min], "fn": fn.path})
    if is_min.is_const and is_min.val:
        return []
    st.assume(tm.not_(is_min))
    return [(st, tm.abs_(a))]


@model(r"^(?:core|std)::num::<impl (i(?:8|16|32|64|128|size))>::unsigned_abs$")
def m_unsigned_abs(ex, m, args, tys, st, fn):
    return [(st, tm.abs_(args[0]))]


@model(r"^(?:core|std)::num::<impl (i(?:8|16|32|64|128|size))>::signum$")
def m_signum(ex, m, args, tys, st, fn):
    a = args[0]
    return [(st, tm.ite(tm.gt(a, I(0)), I(1), tm.ite(tm.eq(a, I(0)), I(0), I(-1))))]


@model(r"^(?:core|std)::num::<impl ([iu](?:8|16|32|64|128|size))>::pow$")
def m_pow(ex, m, args, tys, st, fn):
    bits, signed = _int_of(m.group(1))
    a, b = args
    if not (a.is_const and b.is_const):
        raise Unsupported("pow with symbolic operands")
    r = a.val ** b.val
    lo, hi = tm.ty_range(bits, signed)
    if not (lo <= r <= hi):
        ex.obligations.append({"kind": "panic", "msg": "pow overflow", "pc": list(st.pc), "fn": fn.path})
        return []
    return [(st, I(r))]


@model(r"^(?:core|std)::num::<impl ([iu](?:8|16|32|64|128|size))>::(is_negative|is_positive)$")
def m_is_neg(ex, m, args, tys, st, fn):
    a = args[0]
    return [(st, tm.lt(a, I(0)) if m.group(2) == "is_negative" else tm.gt(a, I(0)))]


@model(r"^(?:core|std)::num::<impl ([iu](?:8|16|32|64|128|size))>::(saturating_add|saturating_sub|saturating_mul)$")
def m_saturating(ex, m, args, tys, st, fn):
    bits, signed = _int_of(m.group(1))
    a, b = args
    raw = {"saturating_add": tm.add, "saturating_sub": tm.sub, "saturating_mul": tm.mul}[m.group(2)](a, b)
    lo, hi = tm.ty_range(bits, signed)
    return [(st, tm.ite(tm.lt(raw, I(lo)), I(lo), tm.ite(tm.gt(raw, I(hi)), I(hi), raw)))]


# ---- comparisons
def _ordering(a, b):
    return Enum(tm.ite(tm.lt(a, b), I(-1), tm.ite(tm.eq(a, b), I(0), I(1))), {}, "Ordering")


@model(r"^<([iu](?:8|16|32|64|128|size)|char) as (?:std::cmp::)?Ord>::cmp$")
def m_int_cmp(ex, m, args, tys, st, fn):
    a, b = _val(ex, args[0]), _val(ex, args[1])
    return [(st, _ordering(a, b))]


@model(r"^<([iu](?:8|16|32|64|128|size)|char) as (?:std::cmp::)?PartialOrd>::partial_cmp$")
def m_int_partial_cmp(ex, m, args, tys, st, fn):
    a, b = _val(ex, args[0]), _val(ex, args[1])
    return [(st, Enum(1, {1: [_ordering(a, b)]}, "Option"))]


@model(r"^<([iu](?:8|16|32|64|128|size)|char) as (?:std::cmp::)?PartialOrd>::(lt|le|gt|ge)$")
def m_int_rel(ex, m, args, tys, st, fn):
    a, b = _val(ex, args[0]), _val(ex, args[1])
    return [(st, {"lt": tm.lt, "le": tm.le, "gt": tm.gt, "ge": tm.ge}[m.group(2)](a, b))]


@model(r"^<([iu](?:8|16|32|64|128|size)|char|bool) as (?:std::cmp::)?PartialEq>::(eq|ne)$")
def m_int_eq(ex, m, args, tys, st, fn):
    a, b = _val(ex, args[0]), _val(ex, args[1])
    if a.sort == "B":
        e = tm.or_(tm.and_(a, b), tm.and_(tm.not_(a), tm.not_(b)))
    else:
        e = tm.eq(a, b)
    return [(st, e if m.group(2) == "eq" else tm.not_(e))]


@model(r"^<(.+) as (?:std::cmp::)?PartialEq>::ne$")
def m_partial_eq_ne(ex, m, args, tys, st, fn):
    """Default method PartialEq::ne = !eq, through the type's own eq (from the dump)."""
    ty = m.group(1)
    cands = ex.prog.find_fn("eq", self_ty=ty, trait="PartialEq")
    if not cands:
        raise Unsupported("no eq for " + ty)
    return [(s, tm.not_(v)) for s, v in ex.exec_fn(cands[0], args, st, 1)]


@model(r"^<(.+) as (?:std::cmp::)?PartialOrd>::(lt|le|gt|ge)$")
def m_partial_ord_default(ex, m, args, tys, st, fn):
    """Default methods of PartialOrd, defined through the type's partial_cmp (taken from the dump)."""
    ty = m.group(1)
    cands = ex.prog.find_fn("partial_cmp", self_ty=ty, trait="PartialOrd")
    if not cands:
        raise Unsupported("no partial_cmp for " + ty)
    out = []
    for s, v in ex.exec_fn(cands[0], args, st, 1):
        if not isinstance(v, Enum) or not v.tag.is_const or v.tag.val != 1:
            raise Unsupported("partial_cmp returned " + repr(v))
        o = v.pay[1][0].tag
        r = {"lt": tm.eq(o, I(-1)), "le": tm.ne(o, I(1)), "gt": tm.eq(o, I(1)), "ge": tm.ne(o, I(-1))}[m.group(2)]
        out.append((s, r))
    return out


@model(r"^<(.+) as (?:std::cmp::)?Ord>::(max|min)$")
def m_ord_max_min(ex, m, args, tys, st, fn):
    """Ord::max / Ord::min default methods through the type's own cmp (from the dump) or integer compare."""
    ty = m.group(1)
    a, b = args
    if ty in INT_TYPES:
        return [(st, (tm.max_ if m.group(2) == "max" else tm.min_)(a, b))]
    cands = ex.prog.find_fn("cmp", self_ty=ty, trait="Ord")
    if not cands:
        raise Unsupported("no cmp for " + ty)
    from .execmir import Cell
    ra, rb = Ref(Cell(a)), Ref(Cell(b))
    out = []
    for s, v in ex.exec_fn(cands[0], [ra, rb], st, 1):
        o = v.tag  # Ordering of (a, b)
        # max: if other < self {self} else {other};  min: if other < self {other} else {self}
        gt_ = tm.eq(o, I(1))
        for s2, isgt in _fork2(s, gt_):
            if m.group(2) == "max":
                out.append((s2, a if isgt else b))
            else:
                out.append((s2, b if isgt else a))
    return out


@model(r"^(?:std|core)::cmp::(max|min)::<([iu](?:8|16|32|64|128|size))>$")
def m_cmp_max_min(ex, m, args, tys, st, fn):
    a, b = args
    return [(st, (tm.max_ if m.group(1) == "max" else tm.min_)(a, b))]


# ---- bytes
@model(r"^(?:core|std)::num::<impl ([iu](?:8|16|32|64|128|size))>::to_be_bytes$")
def m_to_be_bytes(ex, m, args, tys, st, fn):
    bits, signed = _int_of(m.group(1))
    u = tm.wrap(args[0], bits, False)
    n = bits // 8
    out = []
    for k in range(n):
        shift = 1 << (8 * (n - 1 - k))
        out.append(tm.emod(tm.ediv(u, I(shift)), I(256)))
    return [(st, Agg(out))]


@model(r"^(?:core|std)::num::<impl ([iu](?:8|16|32|64|128|size))>::from_be_bytes$")
def m_from_be_bytes(ex, m, args, tys, st, fn):
    bits, signed = _int_of(m.group(1))
    bs = args[0].fields
    acc = I(0)
    for b in bs:
        acc = tm.add(tm.mul(acc, I(256)), b)
    return [(st, tm.wrap(acc, bits, signed))]


# ---- Clone / Copy plumbing for plain data
@model(r"^<(.+) as (?:std::clone::)?Clone>::clone$")
def m_clone(ex, m, args, tys, st, fn):
    ty = m.group(1)
    cands = ex.prog.find_fn("clone", self_ty=ty, trait="Clone")
    if cands:
        return ex.exec_fn(cands[0], args, st, 1)
    return [(st, ex.deref(args[0]))]


# ---- ranges (loop counters)
@model(r"^<(?:std::ops::)?Range<usize> as (?:std::iter::)?IntoIterator>::into_iter$")
def m_range_into_iter(ex, m, args, tys, st, fn):
    return [(st, args[0])]


@model(r"^<(?:std::ops::)?Range<usize> as (?:std::iter::)?Iterator>::next$")
def m_range_next(ex, m, args, tys, st, fn):
    r = args[0]
    rng = ex.deref(r)
    start, end = rng.fields
    out = []
    for s2, more in _fork2(st, tm.lt(start, end)):
        if more:
            # the reference lives in the frame stack of this path: re-resolve it after a fork
            r2 = r if s2 is st else _reresolve(ex, st, s2, r)
            ex.write_ref(r2, Agg([tm.add(start, I(1)), end]))
            out.append((s2, Enum(1, {1: [start]}, "Option")))
        else:
            out.append((s2, Enum(0, {}, "Option")))
    return out


def _reresolve(ex, st, s2, r):
    """Find in forked state s2 the cell that corresponds to r.cell in st (same frame, same local)."""
    for fa, fb in zip(st.frames, s2.frames):
        for k, c in fa.items():
            if c is r.cell:
                return Ref(fb[k], r.path)
    raise Unsupported("reference target not found after fork")


# ---- std::mem
@model(r"^(?:std|core)::mem::replace::<.*>$")
def m_mem_replace(ex, m, args, tys, st, fn):
    r, new = args
    old = ex.deref(r)
    ex.write_ref(r, new)
    return [(st, old)]


@model(r"^<(?:std|core)::cmp::Ordering as (?:std::cmp::)?PartialEq>::(eq|ne)$")
def m_ordering_eq(ex, m, args, tys, st, fn):
    a, b = ex.deref(args[0]), ex.deref(args[1])
    e = tm.eq(a.tag, b.tag)
    return [(st, e if m.group(1) == "eq" else tm.not_(e))]


# ---- Vec<T> with a concrete length, represented as Agg([...]) in a cell (used through &Vec / &mut Vec)
@model(r"^Vec::<.*>::len$")
def m_vec_len(ex, m, args, tys, st, fn):
    v = ex.deref(args[0])
    if not isinstance(v, Agg):
        raise Unsupported("Vec::len of " + repr(v))
    return [(st, I(len(v.fields)))]


@model(r"^Vec::<.*>::push$")
def m_vec_push(ex, m, args, tys, st, fn):
    v = ex.deref(args[0])
    if not isinstance(v, Agg):
        raise Unsupported("Vec::push on " + repr(v))
    ex.write_ref(args[0], Agg(list(v.fields) + [args[1]]))
    return [(st, Agg([]))]


@model(r"^Vec::<.*>::pop$")
def m_vec_pop(ex, m, args, tys, st, fn):
    v = ex.deref(args[0])
    if not isinstance(v, Agg):
        raise Unsupported("Vec::pop on " + repr(v))
    if not v.fields:
        return [(st, Enum(0, {}, "Option"))]
    ex.write_ref(args[0], Agg(list(v.fields[:-1])))
    return [(st, Enum(1, {1: [v.fields[-1]]}, "Option"))]


@model(r"^<Vec<.*> as (?:std::ops::)?Index<(?:std::ops::)?RangeFrom<usize>>>::index$")
def m_vec_index_from(ex, m, args, tys, st, fn):
    from .execmir import Cell
    v = ex.deref(args[0])
    start = args[1].fields[0]
    if not isinstance(v, Agg) or not start.is_const:
        raise Unsupported("Vec[start..] with symbolic start or unmodelled vector")
    if start.val > len(v.fields):
        ex.obligations.append({"kind": "panic", "msg": "range start index out of range for slice", "pc": list(st.pc), "fn": fn.path})
        return []
    return [(st, Ref(Cell(Agg(list(v.fields[start.val:])))))]


@model(r"^<Vec<.*> as (?:std::ops::)?Deref(?:Mut)?>::deref(?:_mut)?$")
def m_vec_deref(ex, m, args, tys, st, fn):
    return [(st, args[0])]  # &Vec<T> -> &[T]: same elements


def _struct_eq(a, b):
    """Structural equality of plain values (ints, aggregates, enums with possibly symbolic tags)."""
    if isinstance(a, T) and isinstance(b, T):
        if a.sort == "B":
            return tm.or_(tm.and_(a, b), tm.and_(tm.not_(a), tm.not_(b)))
        return tm.eq(a, b)
    if isinstance(a, Agg) and isinstance(b, Agg) and len(a.fields) == len(b.fields):
        return tm.and_(*[_struct_eq(x, y) for x, y in zip(a.fields, b.fields)])
    if isinstance(a, Enum) and isinstance(b, Enum):
        conj = [tm.eq(a.tag, b.tag)]
        for k in set(a.pay) & set(b.pay):
            conj.append(tm.implies(tm.eq(a.tag, I(k)), tm.and_(*[_struct_eq(x, y) for x, y in zip(a.pay[k], b.pay[k])])))
        return tm.and_(*conj)
    raise Unsupported(f"equality of {a!r} and {b!r}")


@model(r"^<(?:std::option::)?Option<.*> as (?:std::cmp::)?PartialEq>::(eq|ne)$")
def m_option_eq(ex, m, args, tys, st, fn):
    e = _struct_eq(ex.deref(args[0]), ex.deref(args[1]))
    return [(st, e if m.group(1) == "eq" else tm.not_(e))]


# ---- vec![..] lowering: Box::<[T; N]>::new_uninit + write through the raw pointer + box_assume_init_into_vec_unsafe
@model(r"^Box::<\[.*; \d+\]>::new_uninit$")
def m_box_new_uninit(ex, m, args, tys, st, fn):
    from .execmir import Cell
    # Box(Unique(NonNull(ptr))) ; *ptr = MaybeUninit { uninit: (), value: ManuallyDrop(MaybeDangling([T; N])) }
    cell = Cell(Agg([Agg([]), Agg([Agg([Agg([])])])]))
    return [(st, Agg([Agg([Ref(cell)])]))]


@model(r"^(?:std|alloc)::boxed::box_assume_init_into_vec_unsafe::<.*>$")
def m_box_into_vec(ex, m, args, tys, st, fn):
    r = args[0].fields[0].fields[0]
    arr = r.cell.v.fields[1].fields[0].fields[0]
    return [(st, Agg(list(arr.fields)))]


@model(r"^Vec::<.*>::new$")
def m_vec_new(ex, m, args, tys, st, fn):
    return [(st, Agg([]))]


@model(r"^Vec::<.*>::is_empty$")
def m_vec_is_empty(ex, m, args, tys, st, fn):
    v = ex.deref(args[0])
    return [(st, tm.B(len(v.fields) == 0))]


@model(r"^<Vec<.*> as (?:std::ops::)?Index<usize>>::index$")
def m_vec_index(ex, m, args, tys, st, fn):
    v = ex.deref(args[0])
    i = args[1]
    if not isinstance(v, Agg) or not i.is_const:
        raise Unsupported("Vec[i] with symbolic index or unmodelled vector")
    if i.val >= len(v.fields):
        ex.obligations.append({"kind": "panic", "msg": "index out of bounds (Vec)", "pc": list(st.pc), "fn": fn.path})
        return []
    return [(st, Ref(args[0].cell, tuple(args[0].path) + (int(i.val),)))]


@model(r"^core::slice::<impl \[.*\]>::reverse$")
def m_slice_reverse(ex, m, args, tys, st, fn):
    v = ex.deref(args[0])
    ex.write_ref(args[0], Agg(list(reversed(v.fields))))
    return [(st, Agg([]))]


@model(r"^core::slice::<impl \[.*\]>::get::<usize>$")
def m_slice_get(ex, m, args, tys, st, fn):
    v = ex.deref(args[0])
    i = args[1]
    if not isinstance(v, Agg) or not i.is_const:
        raise Unsupported("slice.get(i) with symbolic index")
    if i.val >= len(v.fields):
        return [(st, Enum(0, {}, "Option"))]
    return [(st, Enum(1, {1: [Ref(args[0].cell, tuple(args[0].path) + (int(i.val),))]}, "Option"))]


@model(r"^core::slice::<impl \[.*\]>::last$")
def m_slice_last(ex, m, args, tys, st, fn):
    v = ex.deref(args[0])
    if not v.fields:
        return [(st, Enum(0, {}, "Option"))]
    return [(st, Enum(1, {1: [Ref(args[0].cell, tuple(args[0].path) + (len(v.fields) - 1,))]}, "Option"))]


@model(r"^Option::<&.*>::copied$")
def m_option_copied(ex, m, args, tys, st, fn):
    o = args[0]
    if not o.tag.is_const:
        raise Unsupported("Option::copied with symbolic tag")
    if o.tag.val == 0:
        return [(st, Enum(0, {}, "Option"))]
    return [(st, Enum(1, {1: [ex.deref(o.pay[1][0])]}, "Option"))]


# ---- VecDeque<T> with a concrete length per path: Agg([...]) like Vec
@model(r"^<VecDeque<.*> as From<\[.*; \d+\]>>::from$")
def m_deque_from(ex, m, args, tys, st, fn):
    return [(st, Agg(list(args[0].fields)))]


@model(r"^VecDeque::<.*>::len$")
def m_deque_len(ex, m, args, tys, st, fn):
    return [(st, I(len(ex.deref(args[0]).fields)))]


@model(r"^VecDeque::<.*>::is_empty$")
def m_deque_is_empty(ex, m, args, tys, st, fn):
    return [(st, tm.B(len(ex.deref(args[0]).fields) == 0))]


@model(r"^VecDeque::<.*>::push_back$")
def m_deque_push_back(ex, m, args, tys, st, fn):
    v = ex.deref(args[0])
    ex.write_ref(args[0], Agg(list(v.fields) + [args[1]]))
    return [(st, Agg([]))]


@model(r"^VecDeque::<.*>::pop_front$")
def m_deque_pop_front(ex, m, args, tys, st, fn):
    v = ex.deref(args[0])
    if not v.fields:
        return [(st, Enum(0, {}, "Option"))]
    ex.write_ref(args[0], Agg(list(v.fields[1:])))
    return [(st, Enum(1, {1: [v.fields[0]]}, "Option"))]


@model(r"^VecDeque::<.*>::front$")
def m_deque_front(ex, m, args, tys, st, fn):
    v = ex.deref(args[0])
    if not v.fields:
        return [(st, Enum(0, {}, "Option"))]
    return [(st, Enum(1, {1: [Ref(args[0].cell, tuple(args[0].path) + (0,))]}, "Option"))]


@model(r"^<&VecDeque<.*> as (?:std::iter::)?IntoIterator>::into_iter$")
def m_deque_into_iter(ex, m, args, tys, st, fn):
    return [(st, Agg([args[0], I(0)]))]


@model(r"^<(?:std::collections::)?vec_deque::Iter<'_, .*> as (?:std::iter::)?Iterator>::next$")
def m_deque_iter_next(ex, m, args, tys, st, fn):
    it = ex.deref(args[0])
    r, i = it.fields
    v = ex.deref(r)
    if i.val >= len(v.fields):
        return [(st, Enum(0, {}, "Option"))]
    ex.write_ref(args[0], Agg([r, I(i.val + 1)]))
    return [(st, Enum(1, {1: [Ref(r.cell, tuple(r.path) + (int(i.val),))]}, "Option"))]


# ---- RangeInclusive<usize> with constant bounds (loop counter)
@model(r"^(?:std::ops::)?RangeInclusive::<usize>::new$")
def m_range_incl_new(ex, m, args, tys, st, fn):
    return [(st, Agg([args[0], args[1], tm.FALSE]))]


@model(r"^<(?:std::ops::)?RangeInclusive<usize> as (?:std::iter::)?IntoIterator>::into_iter$")
def m_range_incl_into_iter(ex, m, args, tys, st, fn):
    return [(st, args[0])]


@model(r"^<(?:std::ops::)?RangeInclusive<usize> as (?:std::iter::)?Iterator>::next$")
def m_range_incl_next(ex, m, args, tys, st, fn):
    rng = ex.deref(args[0])
    start, end, exhausted = rng.fields
    if not (start.is_const and end.is_const and exhausted.is_const):
        raise Unsupported("RangeInclusive with symbolic bounds")
    if exhausted.val or start.val > end.val:
        return [(st, Enum(0, {}, "Option"))]
    if start.val == end.val:
        ex.write_ref(args[0], Agg([start, end, tm.TRUE]))
    else:
        ex.write_ref(args[0], Agg([I(start.val + 1), end, tm.FALSE]))
    return [(st, Enum(1, {1: [start]}, "Option"))]


# ---- [T; N]::into_iter() (by value) with a constant array
@model(r"^<\[.*; \d+\] as (?:std::iter::)?IntoIterator>::into_iter$")
def m_array_into_iter(ex, m, args, tys, st, fn):
    return [(st, Agg([Agg(list(args[0].fields)), I(0)]))]


@model(r"^<(?:std|core)::array::IntoIter<.*, \d+> as (?:std::iter::)?Iterator>::next$")
def m_array_iter_next(ex, m, args, tys, st, fn):
    it = ex.deref(args[0])
    arr, i = it.fields
    if i.val >= len(arr.fields):
        return [(st, Enum(0, {}, "Option"))]
    ex.write_ref(args[0], Agg([arr, I(i.val + 1)]))
    return [(st, Enum(1, {1: [arr.fields[int(i.val)]]}, "Option"))]


@model(r"^<(i8|i16|i32|i64|i128|isize|u8|u16|u32|u64|u128|usize) as (?:std::default::)?Default>::default$")
def m_int_default(ex, m, args, tys, st, fn):
    return [(st, I(0))]


@model(r"^<bool as (?:std::default::)?Default>::default$")
def m_bool_default(ex, m, args, tys, st, fn):
    return [(st, tm.FALSE)]


@model(r"^<\[(.*); (\d+)\] as (?:std::default::)?Default>::default$")
def m_array_default(ex, m, args, tys, st, fn):
    ty, n = m.group(1), int(m.group(2))
    cands = ex.prog.find_fn("default", self_ty=ty, trait="Default")
    out = []
    if ty in INT_TYPES:
        return [(st, Agg([I(0) for _ in range(n)]))]
    if not cands:
        raise Unsupported("Default for [" + ty + "; N]")
    for _ in range(n):
        rs = ex.exec_fn(cands[0], [], st, 1)
        if len(rs) != 1:
            raise Unsupported("forking Default::default")
        st, v = rs[0]
        out.append(v)
    return [(st, Agg(out))]


@model(r"^Option::<&(?:mut )?.*>::as_deref(?:_mut)?$")
def m_option_as_deref(ex, m, args, tys, st, fn):
    o = ex.deref(args[0])
    if not o.tag.is_const:
        raise Unsupported("Option::as_deref with symbolic tag")
    if o.tag.val == 0:
        return [(st, Enum(0, {}, "Option"))]
    return [(st, Enum(1, {1: [o.pay[1][0]]}, "Option"))]


# ---- slice iterators with a concrete length: Agg([ref to the slice, next index])
@model(r"^core::slice::<impl \[.*\]>::iter$")
def m_slice_iter(ex, m, args, tys, st, fn):
    return [(st, Agg([args[0], I(0)]))]


@model(r"^<(?:std|core)::slice::Iter<'_, .*> as (?:std::iter::)?Iterator>::next$")
def m_slice_iter_next(ex, m, args, tys, st, fn):
    it = ex.deref(args[0])
    r, i = it.fields
    v = ex.deref(r)
    if i.val >= len(v.fields):
        return [(st, Enum(0, {}, "Option"))]
    ex.write_ref(args[0], Agg([r, I(i.val + 1)]))
    return [(st, Enum(1, {1: [Ref(r.cell, tuple(r.path) + (int(i.val),))]}, "Option"))]


@model(r"^<(?:std|core)::slice::Iter<'_, .*> as (?:std::iter::)?Iterator>::enumerate$")
def m_slice_iter_enumerate(ex, m, args, tys, st, fn):
    return [(st, Agg([args[0], I(0)]))]  # Enumerate { iter, count }


@model(r"^<(?:std::iter::)?Enumerate<(?:std|core)::slice::Iter<'_, .*>> as (?:std::iter::)?IntoIterator>::into_iter$")
def m_enumerate_into_iter(ex, m, args, tys, st, fn):
    return [(st, args[0])]


@model(r"^<(?:std::iter::)?Enumerate<(?:std|core)::slice::Iter<'_, .*>> as (?:std::iter::)?Iterator>::next$")
def m_enumerate_next(ex, m, args, tys, st, fn):
    en = ex.deref(args[0])
    inner, count = en.fields
    r, i = inner.fields
    v = ex.deref(r)
    if i.val >= len(v.fields):
        return [(st, Enum(0, {}, "Option"))]
    ex.write_ref(args[0], Agg([Agg([r, I(i.val + 1)]), I(count.val + 1)]))
    return [(st, Enum(1, {1: [Agg([count, Ref(r.cell, tuple(r.path) + (int(i.val),))])]}, "Option"))]


@model(r"^Vec::<.*>::extend_from_slice$")
def m_vec_extend_from_slice(ex, m, args, tys, st, fn):
    import copy as _copy
    v = ex.deref(args[0])
    s = ex.deref(args[1])
    ex.write_ref(args[0], Agg(list(v.fields) + [_copy.deepcopy(x) for x in s.fields]))
    return [(st, Agg([]))]


@model(r"^<\[.*\] as (?:std::ops::)?Index<(?:std::ops::)?Range<usize>>>::index$")
def m_slice_index_range(ex, m, args, tys, st, fn):
    from .execmir import Cell
    v = ex.deref(args[0])
    lo, hi = args[1].fields
    if not (lo.is_const and hi.is_const):
        raise Unsupported("slice[a..b] with symbolic bounds")
    if lo.val > hi.val or hi.val > len(v.fields):
        ex.obligations.append({"kind": "panic", "msg": "slice index range out of bounds", "pc": list(st.pc), "fn": fn.path})
        return []
    return [(st, Ref(Cell(Agg(list(v.fields[lo.val:hi.val])))))]


@model(r"^Option::<&.*>::cloned$")
def m_option_cloned(ex, m, args, tys, st, fn):
    import copy as _copy
    o = args[0]
    if not o.tag.is_const:
        raise Unsupported("Option::cloned with symbolic tag")
    if o.tag.val == 0:
        return [(st, Enum(0, {}, "Option"))]
    return [(st, Enum(1, {1: [_copy.deepcopy(ex.deref(o.pay[1][0]))]}, "Option"))]


@model(r"^Option::<.*>::take$")
def m_option_take(ex, m, args, tys, st, fn):
    old = ex.deref(args[0])
    ex.write_ref(args[0], Enum(0, {}, "Option"))
    return [(st, old)]


@model(r"^<(.+) as (?:std::convert::)?Into<(.+)>>::into$")
def m_into_via_from(ex, m, args, tys, st, fn):
    src, dst = m.group(1), m.group(2)
    cands = [f for f in ex.prog.find_fn("from", self_ty=dst, trait="From") if f.params and _norm_last(f.params[0][1]) == _norm_last(src)]
    if not cands:
        return NotImplemented
    return ex.exec_fn(cands[0], args, st, 1)


def _norm_last(t):
    return re.sub(r"<.*$", "", t.strip()).split("::")[-1]
