"""Parser for `rustc -Zunpretty=mir` text: functions/consts, locals with types, basic blocks."""
import re


class Fn:
    def __init__(self, header, kind):
        self.header = header
        self.kind = kind  # 'fn' | 'const'
        self.impl_loc = None  # (file, line, col) for `<impl at file:line:col: ...>`
        self.path = None  # name after the impl / module path, e.g. 'nx_plus_y' or 'badness'
        self.params = []  # [(local, type)]
        self.ret = None
        self.types = {}  # local -> type string
        self.blocks = {}  # 'bb0' -> (stmts[], terminator)
        self.crate = None

    def __repr__(self):
        return f"<Fn {self.header[:80]}>"


def split_top(s, sep=","):
    """Split on `sep` at bracket depth 0 (handles (), [], {}, <>)."""
    out, depth, cur = [], 0, []
    i = 0
    n = len(s)
    instr = False
    while i < n:
        c = s[i]
        if instr:
            cur.append(c)
            if c == "\\":
                cur.append(s[i + 1])
                i += 1
            elif c == '"':
                instr = False
        elif c == '"':
            instr = True
            cur.append(c)
        elif c in "([{<":
            depth += 1
            cur.append(c)
        elif c in ")]}":
            depth -= 1
            cur.append(c)
        elif c == ">":
            # `->` and `=>` are not closers
            if i > 0 and s[i - 1] in "-=":
                cur.append(c)
            else:
                depth -= 1
                cur.append(c)
        elif c == sep and depth == 0:
            out.append("".join(cur).strip())
            cur = []
        else:
            cur.append(c)
        i += 1
    last = "".join(cur).strip()
    if last:
        out.append(last)
    return out


HEADER_RE = re.compile(r"^(fn|const|static(?: mut)?) (.*)$")
IMPL_RE = re.compile(r"<impl at ([^:>]+):(\d+):(\d+): (\d+):(\d+)>")


def parse(text, crate):
    fns = []
    lines = text.split("\n")
    i = 0
    n = len(lines)
    while i < n:
        line = lines[i]
        m1 = re.match(r"^const (.+?): ([^=]+) = const (.*);$", line)
        if m1:
            fn = Fn(line, "const")
            fn.fullname = m1.group(1).strip()
            fn.path = _path_of(fn.fullname)
            im = IMPL_RE.search(fn.fullname)
            if im:
                fn.impl_loc = (im.group(1), int(im.group(2)), int(im.group(3)))
            fn.all_impl_locs = [(x.group(1), int(x.group(2)), int(x.group(3))) for x in IMPL_RE.finditer(fn.fullname)]
            fn.ret = m1.group(2).strip()
            fn.blocks["bb0"] = (["_0 = const " + m1.group(3).strip()], "return")
            fn.crate = crate
            fns.append(fn)
            i += 1
            continue
        m = HEADER_RE.match(line)
        if m and line.rstrip().endswith("{"):
            j = i + 1
            while j < n and lines[j] != "}":
                j += 1
            fn = _parse_item(m.group(1), line, lines[i + 1:j])
            if fn is not None:
                fn.crate = crate
                fns.append(fn)
            i = j + 1
        else:
            i += 1
    return fns


def _parse_item(kind, header, body):
    kind = "fn" if kind == "fn" else "const"
    fn = Fn(header, kind)
    h = header[len(kind) + 1:] if kind == "fn" else header.split(" ", 1)[1]
    h = h.rstrip()
    assert h.endswith("{")
    h = h[:-1].strip()
    # strip all impl markers, remember the first (outermost) one
    m = IMPL_RE.search(h)
    if m:
        fn.impl_loc = (m.group(1), int(m.group(2)), int(m.group(3)))
    fn.all_impl_locs = [(x.group(1), int(x.group(2)), int(x.group(3))) for x in IMPL_RE.finditer(h)]
    if kind == "fn":
        # name(args) -> ret
        p = _find_params_open(h)
        if p is None:
            return None
        name = h[:p]
        q = _match_close(h, p)
        params = h[p + 1:q]
        rest = h[q + 1:].strip()
        fn.ret = rest[2:].strip() if rest.startswith("->") else "()"
        for prm in split_top(params):
            if not prm:
                continue
            loc, ty = prm.split(":", 1)
            fn.params.append((loc.strip(), ty.strip()))
    else:
        # const NAME: TYPE =
        name, rest = _split_const(h)
        fn.ret = rest
    fn.fullname = name.strip()
    fn.path = _path_of(fn.fullname)
    for prm, ty in fn.params:
        fn.types[prm] = ty
    cur = None
    stmts = None
    for ln in body:
        s = ln.strip()
        if not s:
            continue
        m = re.match(r"^let (?:mut )?(_\d+): (.*);$", s)
        if m and cur is None:
            fn.types[m.group(1)] = m.group(2)
            continue
        m = re.match(r"^(bb\d+)(?: \(cleanup\))?: \{$", s)
        if m:
            cur = m.group(1)
            stmts = []
            continue
        if s == "}" and cur is not None:
            if stmts:
                fn.blocks[cur] = (stmts[:-1], stmts[-1])
            else:
                fn.blocks[cur] = ([], "unreachable")
            cur = None
            continue
        if cur is not None:
            if s.endswith(";"):
                s = s[:-1]
            stmts.append(s)
    return fn


def _path_of(fullname):
    """Lookup key: what follows the last `<impl at ..>` marker, else the whole (module-qualified) path."""
    ms = list(IMPL_RE.finditer(fullname))
    if ms:
        return fullname[ms[-1].end():].lstrip(":")
    return fullname


def _find_params_open(h):
    """Index of the '(' that opens the parameter list: first '(' at angle depth 0."""
    depth = 0
    for i, c in enumerate(h):
        if c == "<":
            depth += 1
        elif c == ">" and (i == 0 or h[i - 1] not in "-="):
            depth -= 1
        elif c == "(" and depth == 0:
            return i
    return None


def _match_close(s, i):
    depth = 0
    for j in range(i, len(s)):
        if s[j] in "([{":
            depth += 1
        elif s[j] in ")]}":
            depth -= 1
            if depth == 0:
                return j
    raise ValueError("unbalanced: " + s)


def _split_const(h):
    # NAME: TYPE =
    depth = 0
    for i, c in enumerate(h):
        if c == "<":
            depth += 1
        elif c == ">" and (i == 0 or h[i - 1] not in "-="):
            depth -= 1
        elif c == ":" and depth == 0 and h[i + 1] == " " and not h[i - 1] == ":":
            name = h[:i]
            rest = h[i + 1:].strip()
            if rest.endswith("="):
                rest = rest[:-1].strip()
            return name, rest
    return h, ""
