"""Terms over mathematical integers and booleans with constant folding and SMT-LIB2 printing.

Machine integers are encoded as mathematical Ints plus explicit wrap (`mod 2^k`) where the source
wraps and explicit range obligations where the source checks; see DESIGN.md 2.2 for why (bit-vector
encodings of multiply/divide kernels do not finish; the Int encoding is decided in < 1 s).
Because every constructor folds constants, running the symbolic executor on constant arguments *is*
a concrete MIR interpreter, which is how the translator is validated against the native build.
"""


class T:
    __slots__ = ("op", "args", "sort", "_h")

    def __init__(self, op, args, sort):
        self.op = op
        self.args = args
        self.sort = sort
        self._h = None

    # ---- python protocol
    def __hash__(self):
        if self._h is None:
            self._h = hash((self.op, self.args, self.sort))
        return self._h

    def __eq__(self, other):  # structural (NOT a term constructor; use eq())
        return isinstance(other, T) and self.op == other.op and self.sort == other.sort and self.args == other.args

    def __deepcopy__(self, memo):
        return self

    def __repr__(self):
        return self.smt()

    @property
    def is_const(self):
        return self.op == "const"

    @property
    def val(self):
        assert self.op == "const", self
        return self.args[0]

    # ---- arithmetic sugar for oracles
    def __add__(self, o):
        return add(self, lift(o))

    def __radd__(self, o):
        return add(lift(o), self)

    def __sub__(self, o):
        return sub(self, lift(o))

    def __rsub__(self, o):
        return sub(lift(o), self)

    def __mul__(self, o):
        return mul(self, lift(o))

    def __rmul__(self, o):
        return mul(lift(o), self)

    def __neg__(self):
        return neg(self)

    def __lt__(self, o):
        return lt(self, lift(o))

    def __le__(self, o):
        return le(self, lift(o))

    def __gt__(self, o):
        return lt(lift(o), self)

    def __ge__(self, o):
        return le(lift(o), self)

    def smt(self):
        out = []
        _smt(self, out)
        return "".join(out)


def _smt(t, out):
    # iterative printer (terms can be deep)
    stack = [t]
    while stack:
        x = stack.pop()
        if isinstance(x, str):
            out.append(x)
            continue
        if x.op == "const":
            v = x.args[0]
            if x.sort == "B":
                out.append("true" if v else "false")
            else:
                out.append(str(v) if v >= 0 else f"(- {-v})")
        elif x.op == "var":
            out.append("|" + x.args[0] + "|")
        else:
            out.append("(" + x.op)
            stack.append(")")
            for a in reversed(x.args):
                stack.append(a)
                stack.append(" ")


def I(v):
    return T("const", (int(v),), "I")


def B(v):
    return T("const", (bool(v),), "B")


TRUE = B(True)
FALSE = B(False)


def V(name, sort="I"):
    return T("var", (name,), sort)


def lift(x):
    if isinstance(x, T):
        return x
    if isinstance(x, bool):
        return B(x)
    if isinstance(x, int):
        return I(x)
    raise TypeError(f"cannot lift {x!r}")


def add(a, b):
    if a.is_const and b.is_const:
        return I(a.val + b.val)
    if a.is_const and a.val == 0:
        return b
    if b.is_const and b.val == 0:
        return a
    return T("+", (a, b), "I")


def sub(a, b):
    if a.is_const and b.is_const:
        return I(a.val - b.val)
    if b.is_const and b.val == 0:
        return a
    return T("-", (a, b), "I")


def neg(a):
    if a.is_const:
        return I(-a.val)
    return T("-", (a,), "I")


def mul(a, b):
    if a.is_const and b.is_const:
        return I(a.val * b.val)
    if a.is_const and a.val == 1:
        return b
    if b.is_const and b.val == 1:
        return a
    if (a.is_const and a.val == 0) or (b.is_const and b.val == 0):
        return I(0)
    return T("*", (a, b), "I")


def ediv(a, b):
    """SMT-LIB `div` (for b > 0: floor division)."""
    if a.is_const and b.is_const and b.val != 0:
        q = a.val // b.val if b.val > 0 else -(a.val // -b.val)
        return I(q)
    return T("div", (a, b), "I")


def emod(a, b):
    """SMT-LIB `mod` (result in [0, |b|))."""
    if a.is_const and b.is_const and b.val != 0:
        return I(a.val % abs(b.val))
    return T("mod", (a, b), "I")


def ite(c, a, b):
    if c.is_const:
        return a if c.val else b
    if a == b:
        return a
    return T("ite", (c, a, b), a.sort)


def lt(a, b):
    if a.is_const and b.is_const:
        return B(a.val < b.val)
    return T("<", (a, b), "B")


def le(a, b):
    if a.is_const and b.is_const:
        return B(a.val <= b.val)
    return T("<=", (a, b), "B")


def gt(a, b):
    return lt(b, a)


def ge(a, b):
    return le(b, a)


def eq(a, b):
    if a.is_const and b.is_const:
        return B(a.val == b.val)
    if a == b:
        return TRUE
    return T("=", (a, b), "B")


def ne(a, b):
    return not_(eq(a, b))


def not_(a):
    if a.is_const:
        return B(not a.val)
    if a.op == "not":
        return a.args[0]
    return T("not", (a,), "B")


def and_(*xs):
    out = []
    for x in xs:
        if x.is_const:
            if not x.val:
                return FALSE
            continue
        out.append(x)
    if not out:
        return TRUE
    if len(out) == 1:
        return out[0]
    return T("and", tuple(out), "B")


def or_(*xs):
    out = []
    for x in xs:
        if x.is_const:
            if x.val:
                return TRUE
            continue
        out.append(x)
    if not out:
        return FALSE
    if len(out) == 1:
        return out[0]
    return T("or", tuple(out), "B")


def implies(a, b):
    return or_(not_(a), b)


def tdiv(a, b):
    """Truncating division (Rust `/` on signed integers), b != 0."""
    if a.is_const and b.is_const:
        q = abs(a.val) // abs(b.val)
        return I(q if (a.val >= 0) == (b.val > 0) else -q)
    if b.is_const:
        if b.val > 0:
            return ite(ge(a, I(0)), ediv(a, b), neg(ediv(neg(a), b)))
        nb = I(-b.val)
        return ite(ge(a, I(0)), neg(ediv(a, nb)), ediv(neg(a), nb))
    return ite(gt(b, I(0)),
               ite(ge(a, I(0)), ediv(a, b), neg(ediv(neg(a), b))),
               ite(ge(a, I(0)), neg(ediv(a, neg(b))), ediv(neg(a), neg(b))))


def trem(a, b):
    """Truncating remainder (Rust `%`): sign follows the dividend."""
    if a.is_const and b.is_const:
        r = abs(a.val) % abs(b.val)
        return I(r if a.val >= 0 else -r)
    return sub(a, mul(b, tdiv(a, b)))


def wrap(x, bits, signed):
    m = 1 << bits
    if x.is_const:
        v = x.val % m
        if signed and v >= m // 2:
            v -= m
        return I(v)
    if signed:
        return sub(emod(add(x, I(m // 2)), I(m)), I(m // 2))
    return emod(x, I(m))


def in_range(x, bits, signed):
    lo, hi = ty_range(bits, signed)
    return and_(le(I(lo), x), le(x, I(hi)))


def ty_range(bits, signed):
    if signed:
        return -(1 << (bits - 1)), (1 << (bits - 1)) - 1
    return 0, (1 << bits) - 1


def abs_(a):
    return ite(ge(a, I(0)), a, neg(a))


def max_(a, b):
    return ite(ge(a, b), a, b)


def min_(a, b):
    return ite(le(a, b), a, b)


def free_vars(t, acc=None):
    if acc is None:
        acc = {}
    stack = [t]
    seen = set()
    while stack:
        x = stack.pop()
        if id(x) in seen:
            continue
        seen.add(id(x))
        if x.op == "var":
            acc[x.args[0]] = x.sort
        elif x.op != "const":
            stack.extend(x.args)
    return acc


# ---- uninterpreted functions (summaries): `uf("bad", t, s)` prints as (uf_bad t s); with constant
# arguments and a registered implementation it folds to the implementation's value.
UF_IMPL = {}


UF_PARTIAL = {}  # name -> f(*args) -> exact term or None (used when enough operands are constants)


def uf(name, *args):
    args = tuple(lift(a) for a in args)
    if name in UF_IMPL and all(a.is_const for a in args):
        return I(UF_IMPL[name](*[a.val for a in args]))
    if name in UF_PARTIAL:
        r = UF_PARTIAL[name](*args)
        if r is not None:
            return r
    return T("uf_" + name, args, "I")


def const_tree(t, limit=5000):
    """If t is an ite-tree with constant leaves, possibly under +,-,* with constants: the tree as nested
    ('ite', cond, a, b) / int, else None. Used to keep products of table-valued terms linear."""
    memo = {}

    def go(x):
        k = id(x)
        if k in memo:
            return memo[k]
        r = None
        if x.op == "const" and x.sort == "I":
            r = x.val
        elif x.op == "ite":
            a, b = go(x.args[1]), go(x.args[2])
            if a is not None and b is not None:
                r = ("ite", x.args[0], a, b)
        elif x.op in ("+", "-", "*") and len(x.args) == 2:
            a, b = go(x.args[0]), go(x.args[1])
            if a is not None and b is not None and (isinstance(a, int) or isinstance(b, int)):
                f = {"+": lambda u, v: u + v, "-": lambda u, v: u - v, "*": lambda u, v: u * v}[x.op]
                r = map_tree(b, lambda v: f(a, v)) if isinstance(a, int) else map_tree(a, lambda u: f(u, b))
        memo[k] = r
        return r
    return go(t)


def map_tree(tr, f):
    if isinstance(tr, int):
        return f(tr)
    return ("ite", tr[1], map_tree(tr[2], f), map_tree(tr[3], f))


def tree_term(tr):
    if isinstance(tr, int):
        return I(tr)
    return ite(tr[1], tree_term(tr[2]), tree_term(tr[3]))


def table(x, lo, hi, f):
    """f(x) for an integer x known to lie in [lo, hi], as a balanced ite tree over x with constant leaves
    (adjacent equal values share a leaf)."""
    vals = [f(v) for v in range(lo, hi + 1)]
    # run-length: breakpoints where the value changes
    runs = []
    for i, v in enumerate(vals):
        if not runs or runs[-1][1] != v:
            runs.append((lo + i, v))

    def build(i, j):  # runs[i:j]
        if j - i == 1:
            return I(runs[i][1])
        m = (i + j) // 2
        return ite(lt(x, I(runs[m][0])), build(i, m), build(m, j))
    return build(0, len(runs))
