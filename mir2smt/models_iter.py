"""More container/iterator models (reverse iteration, Extend, range-indexing); registered on import."""
import copy as _copy

from . import term as tm
from .term import I
from .execmir import Agg, Enum, Ref, Cell, Unsupported
from .models import model


def _elems(ex, r):
    v = ex.deref(r)
    if not isinstance(v, Agg):
        raise Unsupported("iteration over " + repr(v))
    return v.fields


# slice::Iter = Agg([ref, front]); Rev<slice::Iter> = Agg([ref, front, back]) yielding back-1 .. front
@model(r"^<(?:std|core)::slice::Iter<'_, .*> as (?:std::iter::)?Iterator>::rev$")
def m_iter_rev(ex, m, args, tys, st, fn):
    r, i = args[0].fields
    return [(st, Agg([r, i, I(len(_elems(ex, r)))]))]


@model(r"^<(?:std::iter::)?Rev<(?:std|core)::slice::Iter<'_, .*>> as (?:std::iter::)?IntoIterator>::into_iter$")
def m_rev_into_iter(ex, m, args, tys, st, fn):
    return [(st, args[0])]


@model(r"^<(?:std::iter::)?Rev<(?:std|core)::slice::Iter<'_, .*>> as (?:std::iter::)?Iterator>::next$")
def m_rev_next(ex, m, args, tys, st, fn):
    it = ex.deref(args[0])
    r, front, back = it.fields
    if back.val <= front.val:
        return [(st, Enum(0, {}, "Option"))]
    ex.write_ref(args[0], Agg([r, front, I(back.val - 1)]))
    return [(st, Enum(1, {1: [Ref(r.cell, tuple(r.path) + (int(back.val) - 1,))]}, "Option"))]


@model(r"^<(?:std::iter::)?Rev<(?:std|core)::slice::Iter<'_, .*>> as (?:std::iter::)?Iterator>::copied::<.*>$")
def m_rev_copied(ex, m, args, tys, st, fn):
    return [(st, args[0])]


@model(r"^<(?:std|core)::slice::Iter<'_, .*> as (?:std::iter::)?IntoIterator>::into_iter$")
def m_slice_iter_into_iter(ex, m, args, tys, st, fn):
    return [(st, args[0])]


@model(r"^<Vec<.*> as (?:std::iter::)?Extend<&.*>>::extend::<&Vec<.*>>$")
def m_vec_extend_ref_vec(ex, m, args, tys, st, fn):
    v = ex.deref(args[0])
    src = _elems(ex, args[1])
    ex.write_ref(args[0], Agg(list(v.fields) + [_copy.deepcopy(x) for x in src]))
    return [(st, Agg([]))]


@model(r"^<Vec<.*> as (?:std::iter::)?Extend<.*>>::extend::<(?:std::iter::)?Copied<(?:std::iter::)?Rev<(?:std|core)::slice::Iter<'_, .*>>>>$")
def m_vec_extend_copied_rev(ex, m, args, tys, st, fn):
    v = ex.deref(args[0])
    r, front, back = args[1].fields
    src = _elems(ex, r)
    new = [_copy.deepcopy(src[k]) for k in range(int(back.val) - 1, int(front.val) - 1, -1)]
    ex.write_ref(args[0], Agg(list(v.fields) + new))
    return [(st, Agg([]))]


@model(r"^Vec::<.*>::reserve$")
def m_vec_reserve(ex, m, args, tys, st, fn):
    return [(st, Agg([]))]


@model(r"^<Vec<.*> as (?:std::default::)?Default>::default$")
def m_vec_default(ex, m, args, tys, st, fn):
    return [(st, Agg([]))]


def _range_of(a):
    lo, hi = a.fields
    if not (lo.is_const and hi.is_const):
        raise Unsupported("range with symbolic bounds")
    return int(lo.val), int(hi.val)


@model(r"^core::slice::<impl \[.*\]>::get::<(?:std::ops::)?Range<usize>>$")
def m_slice_get_range(ex, m, args, tys, st, fn):
    v = ex.deref(args[0])
    lo, hi = _range_of(args[1])
    if lo > hi or hi > len(v.fields):
        return [(st, Enum(0, {}, "Option"))]
    return [(st, Enum(1, {1: [Ref(Cell(Agg(list(v.fields[lo:hi]))))]}, "Option"))]


@model(r"^<Vec<.*> as (?:std::ops::)?Index<(?:std::ops::)?Range<usize>>>::index$")
def m_vec_index_range(ex, m, args, tys, st, fn):
    v = ex.deref(args[0])
    lo, hi = _range_of(args[1])
    if lo > hi or hi > len(v.fields):
        ex.obligations.append({"kind": "panic", "msg": "range out of bounds for Vec", "pc": list(st.pc), "fn": fn.path})
        return []
    return [(st, Ref(Cell(Agg(list(v.fields[lo:hi])))))]


@model(r"^<&Vec<.*> as (?:std::iter::)?IntoIterator>::into_iter$")
def m_ref_vec_into_iter(ex, m, args, tys, st, fn):
    return [(st, Agg([args[0], I(0)]))]


@model(r"^<(?:std|core)::slice::Iter<'_, .*> as (?:std::iter::)?Iterator>::(?:copied|cloned)::<.*>$")
def m_iter_copied(ex, m, args, tys, st, fn):
    return [(st, args[0])]


@model(r"^<Vec<.*> as (?:std::iter::)?Extend<.*>>::extend::<(?:std::iter::)?(?:Copied|Cloned)<(?:std|core)::slice::Iter<'_, .*>>>$")
def m_vec_extend_copied_iter(ex, m, args, tys, st, fn):
    v = ex.deref(args[0])
    r, front = args[1].fields
    src = _elems(ex, r)
    ex.write_ref(args[0], Agg(list(v.fields) + [_copy.deepcopy(x) for x in src[int(front.val):]]))
    return [(st, Agg([]))]


@model(r"^<Vec<.*> as (?:std::iter::)?Extend<&.*>>::extend::<(?:std::iter::)?Rev<(?:std|core)::slice::Iter<'_, .*>>>$")
def m_vec_extend_rev_refs(ex, m, args, tys, st, fn):
    v = ex.deref(args[0])
    r, front, back = args[1].fields
    src = _elems(ex, r)
    ex.write_ref(args[0], Agg(list(v.fields) + [_copy.deepcopy(src[k]) for k in range(int(back.val) - 1, int(front.val) - 1, -1)]))
    return [(st, Agg([]))]


@model(r"^<Vec<.*> as (?:std::clone::)?Clone>::clone$")
def m_vec_clone(ex, m, args, tys, st, fn):
    return [(st, _copy.deepcopy(ex.deref(args[0])))]


@model(r"^<(?:Vec<.*>|\[.*; \d+\]|\[.*\]) as (?:std::cmp::)?PartialEq>::(eq|ne)$")
def m_seq_eq(ex, m, args, tys, st, fn):
    from .models import _struct_eq
    a, b = ex.deref(args[0]), ex.deref(args[1])
    if not (isinstance(a, Agg) and isinstance(b, Agg)):
        raise Unsupported("sequence equality on unmodelled values")
    e = tm.FALSE if len(a.fields) != len(b.fields) else _struct_eq(a, b)
    return [(st, e if m.group(1) == "eq" else tm.not_(e))]


# Vec<T>::into_iter() by value: Agg([Agg(elements), next index])
@model(r"^<Vec<.*> as (?:std::iter::)?IntoIterator>::into_iter$")
def m_vec_into_iter(ex, m, args, tys, st, fn):
    return [(st, Agg([Agg(list(args[0].fields)), I(0)]))]


@model(r"^<(?:std|alloc)::vec::IntoIter<.*> as (?:std::iter::)?Iterator>::next$")
def m_vec_into_iter_next(ex, m, args, tys, st, fn):
    it = ex.deref(args[0])
    arr, i = it.fields
    if i.val >= len(arr.fields):
        return [(st, Enum(0, {}, "Option"))]
    ex.write_ref(args[0], Agg([arr, I(i.val + 1)]))
    return [(st, Enum(1, {1: [arr.fields[int(i.val)]]}, "Option"))]


@model(r"^Option::<.*>::is_some$")
def m_option_is_some_any(ex, m, args, tys, st, fn):
    o = ex.deref(args[0])
    return [(st, tm.eq(o.tag, I(1)))]


# ---- vec_deque.iter().take(k).take_while(closure).count()
@model(r"^VecDeque::<.*>::iter$")
def m_deque_iter(ex, m, args, tys, st, fn):
    return [(st, Agg([args[0], I(0)]))]


@model(r"^<(?:std::collections::)?vec_deque::Iter<'_, .*> as (?:std::iter::)?Iterator>::take$")
def m_deque_iter_take(ex, m, args, tys, st, fn):
    return [(st, Agg([args[0], args[1]]))]


@model(r"^<(?:std::iter::)?Take<(?:std::collections::)?vec_deque::Iter<'_, .*>> as (?:std::iter::)?Iterator>::take_while::<.*>$")
def m_take_take_while(ex, m, args, tys, st, fn):
    return [(st, Agg([args[0], args[1]]))]


def closure_fn(ex, clo):
    for f in ex.prog.fns:
        if f.kind == "fn" and "{closure" in f.path and f.params and ("{closure@" + clo.loc + "}") in f.params[0][1]:
            return f
    raise Unsupported("closure body not found in the dump: " + clo.loc)


@model(r"^<(?:std::iter::)?TakeWhile<(?:std::iter::)?Take<(?:std::collections::)?vec_deque::Iter<'_, .*>>, .*> as (?:std::iter::)?Iterator>::count$")
def m_take_while_count(ex, m, args, tys, st, fn):
    from .execmir import Cell
    take, clo = args[0].fields
    it, k = take.fields
    r, start = it.fields
    if not k.is_const:
        raise Unsupported("take(k) with symbolic k")
    elems = _elems(ex, r)
    f = closure_fn(ex, clo)
    out = []

    def go(state, i, n):
        if i >= min(len(elems), int(start.val) + int(k.val)):
            out.append((state, I(n)))
            return
        elem_ref = Ref(r.cell, tuple(r.path) + (i,))
        for s2, keep in ex.exec_fn(f, [Ref(Cell(clo)), Ref(Cell(elem_ref))], state, 1):
            if keep.is_const:
                if keep.val:
                    go(s2, i + 1, n + 1)
                else:
                    out.append((s2, I(n)))
            else:
                raise Unsupported("take_while predicate with a symbolic answer")
    go(st, int(start.val), 0)
    return out


# ---- RefCell<T> modelled as a one-field wrapper Agg([inner]); borrows are plain references to the inner value
@model(r"^(?:std::cell::)?RefCell::<.*>::borrow(?:_mut)?$")
def m_refcell_borrow(ex, m, args, tys, st, fn):
    r = args[0]
    return [(st, Ref(r.cell, tuple(r.path) + (0,)))]


@model(r"^<(?:std::cell::)?Ref(?:Mut)?<'_, .*> as (?:std::ops::)?Deref(?:Mut)?>::deref(?:_mut)?$")
def m_refcell_guard_deref(ex, m, args, tys, st, fn):
    g = ex.deref(args[0]) if isinstance(args[0], Ref) and isinstance(ex.deref(args[0]), Ref) else args[0]
    return [(st, g)]
