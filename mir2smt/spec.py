"""Helpers for writing reference semantics (oracles) over terms: transcriptions of TeX's Pascal."""
from . import term as tm
from .term import I, B, T
from .execmir import Agg, Enum, Ref

MAX_DIMEN = (1 << 30) - 1
I32_MIN, I32_MAX = -(1 << 31), (1 << 31) - 1


def f0(v):
    """The i32 inside a Scaled / FixWord / single-field tuple struct (through references)."""
    while isinstance(v, Ref):
        v = v.cell.v
    if isinstance(v, Agg):
        return f0(v.fields[0])
    return v


def fld(v, k):
    while isinstance(v, Ref):
        v = v.cell.v
    return v.fields[k]


def tag(v):
    while isinstance(v, Ref):
        v = v.cell.v
    return v.tag


def result_is(ret, ok_cond, ok_eq):
    """ret: Result<..> value of one path (concrete tag). ok_cond: Bool term "the reference succeeds".
    ok_eq(payload) -> Bool term "payload equals the reference value". """
    t = ret.tag
    assert t.is_const, "Result with symbolic tag"
    if t.val == 0:
        return tm.and_(ok_cond, ok_eq(ret.pay[0][0]))
    return tm.not_(ok_cond)


def option_is(ret, some_cond, some_eq):
    t = ret.tag
    assert t.is_const, "Option with symbolic tag"
    if t.val == 1:
        return tm.and_(some_cond, some_eq(ret.pay[1][0]))
    return tm.not_(some_cond)


def in_i32(x):
    return tm.in_range(x, 32, True)


def wrap32(x):
    return tm.wrap(x, 32, True)


def glue_fields(g):
    while isinstance(g, Ref):
        g = g.cell.v
    w, st, sto, sh, sho = g.fields
    return f0(w), f0(st), tag(sto) if isinstance(sto, Enum) else sto, f0(sh), tag(sho) if isinstance(sho, Enum) else sho
