"""Symbolic executor over rustc MIR (path-forking, calls inlined, loops unrolled to a bound).

Values
  T                 integer / boolean term (term.py)
  Agg(fields)       tuple, tuple struct or struct (fields by index)
  Enum(tag, pay)    tag: T (Int) ; pay: {variant_index: [fields]}
  Ref(cell, path)   reference to a storage cell (+ projection path)
  Opaque(what)      anything the engine does not model (string constants, ...); using it is an error
Unsupported constructs raise Unsupported: the obligation is then reported as *unsupported*, never guessed.
"""
import copy
import re

from . import term as tm
from .term import T, I, B
from .mirparse import split_top, _match_close


class Unsupported(Exception):
    pass


class Agg:
    __slots__ = ("fields",)

    def __init__(self, fields):
        self.fields = list(fields)

    def __repr__(self):
        return f"Agg{self.fields}"


class Closure(Agg):
    """A closure value: its captured variables in order + the source location that names its body in the dump."""
    __slots__ = ("loc",)

    def __init__(self, fields, loc):
        Agg.__init__(self, fields)
        self.loc = loc

    def __repr__(self):
        return f"Closure@{self.loc}{self.fields}"


class Enum:
    __slots__ = ("tag", "pay", "ety")

    def __init__(self, tag, pay, ety=None):
        self.tag = tag if isinstance(tag, T) else I(tag)
        self.pay = pay
        self.ety = ety

    def __repr__(self):
        return f"Enum({self.tag}, {self.pay})"


class Cell:
    __slots__ = ("v",)

    def __init__(self, v=None):
        self.v = v


class Ref:
    __slots__ = ("cell", "path")

    def __init__(self, cell, path=()):
        self.cell = cell
        self.path = tuple(path)

    def __repr__(self):
        return f"Ref({self.path})"


class Opaque:
    __slots__ = ("what",)

    def __init__(self, what):
        self.what = what

    def __repr__(self):
        return f"Opaque({self.what})"


class Overflowed:
    """Result of an *WithOverflow op: raw mathematical result + the type it is checked against."""
    __slots__ = ("raw", "bits", "signed")

    def __init__(self, raw, bits, signed):
        self.raw, self.bits, self.signed = raw, bits, signed


INT_TYPES = {
    "i8": (8, True), "i16": (16, True), "i32": (32, True), "i64": (64, True), "i128": (128, True), "isize": (64, True),
    "u8": (8, False), "u16": (16, False), "u32": (32, False), "u64": (64, False), "u128": (128, False), "usize": (64, False),
    "char": (32, False),
}

STD_ENUMS = {
    "Option": {"None": 0, "Some": 1},
    "Result": {"Ok": 0, "Err": 1},
    "ControlFlow": {"Continue": 0, "Break": 1},
    "Ordering": {"Less": -1, "Equal": 0, "Greater": 1},
}


PRUNER = None  # set by the runner for obligations with prune=True (mir2smt.prune.Pruner)


def feasible(st, cond):
    """Solver-backed feasibility of a branch (only when a pruner is installed; otherwise every branch is kept)."""
    if PRUNER is None or cond.is_const:
        return True
    return PRUNER.feasible(st.pc, cond)


class State:
    def __init__(self):
        self.pc = []  # list of T (Bool)
        self.in_range = set()  # ids (hash) of raw terms known to be in range
        self.frames = []
        self.log = []  # call log written by environment stubs (per path)
        self.roots = []  # the top-level argument values *of this path* (forks deep-copy them with the state)

    def fork(self):
        return copy.deepcopy(self)

    def assume(self, c):
        if c.is_const:
            return c.val
        self.pc.append(c)
        return True


class Program:
    """All MIR functions of one or more crates + source-derived tables (impl headers, enums, structs)."""

    def __init__(self):
        self.fns = []
        self.by_path = {}
        self.impl_info = {}  # (crate, file, line, col) -> (trait or None, self_type)
        self.enums = dict((k, dict(v)) for k, v in STD_ENUMS.items())
        self.structs = {"Range": ["start", "end"], "RangeFrom": ["start"]}  # name -> [field names]
        self.src = {}

    def add_crate(self, crate, mir_text, crate_dir):
        from . import mirparse
        import os
        fns = mirparse.parse(mir_text, crate)
        for f in fns:
            self.fns.append(f)
            self.by_path.setdefault(f.path, []).append(f)
            last = f.path.split("::")[-1]
            if last != f.path and "promoted" not in f.path and "{" not in last:
                self.by_path.setdefault(last, []).append(f)
            for loc in getattr(f, "all_impl_locs", []):
                key = (crate,) + loc
                if key not in self.impl_info:
                    self.impl_info[key] = self._impl_header(crate, crate_dir, loc)
        # enums / structs from source
        for root, _, files in os.walk(os.path.join(crate_dir, "src")):
            for fn in files:
                if fn.endswith(".rs"):
                    self._scan_types(open(os.path.join(root, fn), errors="replace").read())

    def _source(self, crate_dir, file):
        import os
        p = os.path.join(crate_dir, file)
        if not os.path.exists(p):
            # in-place dumps print paths relative to the workspace root
            p = os.path.join(os.path.dirname(os.path.dirname(crate_dir)), file)
        if p not in self.src:
            self.src[p] = open(p, errors="replace").read().split("\n")
        return self.src[p]

    def _impl_header(self, crate, crate_dir, loc):
        file, line, col = loc
        try:
            lines = self._source(crate_dir, file)
        except OSError:
            return (None, None)
        text = lines[line - 1][col - 1:]
        if text.startswith("impl"):
            # join following lines until '{'
            k = line
            while "{" not in text and k < len(lines):
                text += " " + lines[k].strip()
                k += 1
            head = text.split("{")[0].split(" where ")[0]
            head = re.sub(r"^impl\s*(<[^>]*>)?\s*", "", head.strip()) if not head.startswith("impl<") else _strip_impl_generics(head)
            head = head.strip()
            if " for " in head:
                tr, ty = head.split(" for ", 1)
                return (_norm_ty(tr), _norm_ty(ty))
            return (None, _norm_ty(head))
        # derive: text at col is the trait name; the type is the next struct/enum declared below
        m = re.match(r"([A-Za-z_:]+)", text)
        tr = m.group(1) if m else None
        k = line - 1
        while k < len(lines):
            mm = re.search(r"\b(?:struct|enum)\s+([A-Za-z_0-9]+)", lines[k])
            if mm and not lines[k].strip().startswith("//"):
                return (tr, mm.group(1))
            k += 1
        return (tr, None)

    def _scan_types(self, text):
        text = re.sub(r"//[^\n]*", "", text)
        for m in re.finditer(r"\benum\s+([A-Za-z_0-9]+)\s*(?:<[^>{]*>)?\s*\{", text):
            name = m.group(1)
            body = text[m.end():_match_close(text, m.end() - 1)]
            variants = {}
            idx = 0
            for part in split_top(body):
                part = re.sub(r"#\[[^\]]*\]", "", part).strip()
                mm = re.match(r"([A-Za-z_0-9]+)", part)
                if not mm:
                    continue
                md = re.search(r"=\s*(-?\d+)\s*$", part)
                if md:
                    idx = int(md.group(1))
                variants[mm.group(1)] = idx
                idx += 1
            if name not in self.enums:
                self.enums[name] = variants
            elif self.enums[name] != variants:
                # a second enum with the same last name (lexer::Result vs std Result): kept as an alternative
                self.enums_alt = getattr(self, "enums_alt", {})
                if variants not in self.enums_alt.setdefault(name, []):
                    self.enums_alt[name].append(variants)
        for m in re.finditer(r"\bstruct\s+([A-Za-z_0-9]+)\s*(?:<[^>{(]*>)?\s*\{", text):
            name = m.group(1)
            body = text[m.end():_match_close(text, m.end() - 1)]
            fields = []
            for part in split_top(body):
                part = re.sub(r"#\[[^\]]*\]", "", part).strip()
                mm = re.match(r"(?:pub(?:\([^)]*\))?\s+)?([A-Za-z_0-9]+)\s*:", part)
                if mm:
                    fields.append(mm.group(1))
            self.structs.setdefault(name, fields)
            # same name in another module/crate (common::Glue vs boxworks::ds::Glue): keep every field list
            self.structs_all = getattr(self, "structs_all", {})
            if fields not in self.structs_all.setdefault(name, []):
                self.structs_all[name].append(fields)

    # ---- lookup
    def find_fn(self, name, self_ty=None, trait=None, crate=None):
        cands = self.by_path.get(name, [])
        out = []
        for f in cands:
            if crate and f.crate != crate:
                continue
            if f.impl_loc is None:
                if self_ty is None and trait is None:
                    out.append(f)
                continue
            tr, ty = self.impl_info.get((f.crate,) + f.impl_loc, (None, None))
            if self_ty is not None and _base(ty) != _base(self_ty):
                continue
            if trait is not None:
                if tr is None:
                    continue
                a, b = _last_seg(tr), _last_seg(trait)
                if "<" in b:
                    if a != b:
                        continue
                elif a.split("<")[0] != b:
                    continue
            elif tr is not None and self_ty is not None and trait is None:
                # inherent lookup must not hit trait impls
                continue
            out.append(f)
        return out


def _strip_impl_generics(head):
    # head starts with 'impl<'
    i = head.index("<")
    depth = 0
    for j in range(i, len(head)):
        if head[j] == "<":
            depth += 1
        elif head[j] == ">":
            depth -= 1
            if depth == 0:
                return head[j + 1:].strip()
    return head


def _norm_ty(t):
    if t is None:
        return None
    t = t.strip()
    t = re.sub(r"\s+", " ", t)
    t = t.replace("std::ops::", "").replace("core::ops::", "").replace("std::cmp::", "").replace("std::fmt::", "")
    return t


def _last_seg(t):
    t = _norm_ty(t)
    # drop leading path segments but keep generics: a::b::Div<i32> -> Div<i32>
    m = re.match(r"^((?:[A-Za-z_0-9]+::)*)(.*)$", t)
    # module paths inside the generic arguments are dropped too: AddAssign<common::Scaled> -> AddAssign<Scaled>
    return re.sub(r"(?:[A-Za-z_0-9]+::)+", "", m.group(2)).replace(" ", "")


def _base(t):
    if t is None:
        return None
    t = _norm_ty(t)
    t = t.lstrip("&").replace("mut ", "").strip()
    t = re.sub(r"<.*$", "", t)
    return t.split("::")[-1]


class Executor:
    def __init__(self, prog, unroll=8, models=None, max_paths=20000):
        self.prog = prog
        self.unroll = unroll
        self.obligations = []  # dicts: kind, msg, pc, fn
        self.models = models or []
        self.max_paths = max_paths
        self.npaths = 0
        self.nblocks = 0  # MIR basic blocks executed over all paths
        self.fresh = 0
        self.called = []  # names of MIR functions symbolically executed

    # ------------------------------------------------------------------ types
    def int_ty(self, ty):
        ty = ty.strip()
        return INT_TYPES.get(ty)

    def fresh_var(self, hint, sort="I"):
        self.fresh += 1
        return tm.V(f"{hint}!{self.fresh}", sort)

    # ------------------------------------------------------------------ entry
    def run(self, fn, args, st=None):
        """Execute fn on argument values. Returns [(state, return value)] (one per path)."""
        if st is None:
            st = State()
        st.roots = list(args)
        return self.exec_fn(fn, args, st, 0)

    def exec_fn(self, fn, args, st, depth):
        if depth > 40:
            raise Unsupported("call depth")
        if fn.header not in self.called:
            self.called.append(fn.header)
        frame = {}
        for (loc, _ty), a in zip(fn.params, args):
            frame[loc] = Cell(a)
        st.frames.append(frame)
        fidx = len(st.frames) - 1
        results = []
        work = [(st, "bb0", {})]
        while work:
            st, bb, visits = work.pop()
            self.npaths += 1
            if self.npaths > self.max_paths:
                raise Unsupported("path budget exceeded")
            while True:
                visits = dict(visits)
                visits[bb] = visits.get(bb, 0) + 1
                if visits[bb] > self.unroll + 1:
                    # loop bound exceeded on this path: unwinding obligation (path must be infeasible)
                    self.obligations.append({"kind": "unwind", "msg": f"loop unrolled more than {self.unroll} times at {bb}",
                                             "pc": list(st.pc), "fn": fn.path})
                    break
                stmts, term = fn.blocks[bb]
                self.nblocks += 1
                frame = st.frames[fidx]
                for s in stmts:
                    self.exec_stmt(fn, s, st, frame)
                nxt = self.exec_term(fn, term, st, frame, fidx, depth, results, work, visits)
                if nxt is None:
                    break
                bb = nxt
        # pop frames
        for (s, _v) in results:
            del s.frames[fidx:]
        return results

    # ------------------------------------------------------------------ statements
    def exec_stmt(self, fn, s, st, frame):
        if s.startswith(("StorageLive", "StorageDead", "nop", "FakeRead", "PlaceMention", "AscribeUserType", "Retag", "Coverage", "ConstEvalCounter")):
            return
        if s.startswith("Deinit("):
            return
        if s.startswith("discriminant(") and " = " in s:
            # SetDiscriminant: discriminant(_x) = N
            raise Unsupported("SetDiscriminant")
        if " = " not in s:
            raise Unsupported("statement: " + s)
        lhs, rhs = s.split(" = ", 1)
        v = self.eval_rvalue(fn, rhs.strip(), st, frame, lhs.strip())
        self.write_place(fn, lhs.strip(), v, st, frame)

    # ------------------------------------------------------------------ places
    def parse_place(self, p):
        """-> (local, [proj...]) with proj in ('deref',) ('field', n) ('downcast', name) ('index', operandstr) ('cindex', n)"""
        p = p.strip()
        if re.fullmatch(r"_\d+", p):
            return p, []
        if p.startswith("(*") and p.endswith(")") and _match_close(p, 0) == len(p) - 1:
            loc, proj = self.parse_place(p[2:-1])
            return loc, proj + [("deref",)]
        if p.startswith("(") and _match_close(p, 0) == len(p) - 1:
            inner = p[1:-1]
            # field: `<place>.N: TYPE`  or downcast `<place> as Variant`
            # find the split point: the place part ends at its own bracket close or at first '.'/' as '
            if inner.startswith("("):
                k = _match_close(inner, 0)
                base, rest = inner[:k + 1], inner[k + 1:]
            else:
                m = re.match(r"(_\d+)(.*)$", inner, re.S)
                base, rest = m.group(1), m.group(2)
            loc, proj = self.parse_place(base)
            rest = rest.strip()
            while rest.startswith("["):
                mi = re.match(r"\[(_\d+)\]", rest)
                mc = re.match(r"\[(\d+) of (\d+)\]", rest)
                if mi:
                    proj = proj + [("index", mi.group(1))]
                    rest = rest[mi.end():].strip()
                elif mc:
                    proj = proj + [("cindex", int(mc.group(1)))]
                    rest = rest[mc.end():].strip()
                else:
                    raise Unsupported("place: " + p)
            if rest.startswith("."):
                m = re.match(r"\.(\d+): ", rest)
                return loc, proj + [("field", int(m.group(1)))]
            if rest.startswith("as "):
                return loc, proj + [("downcast", rest[3:].strip())]
            raise Unsupported("place: " + p)
        m = re.fullmatch(r"(.*)\[(_\d+)\]", p)
        if m:
            loc, proj = self.parse_place(m.group(1))
            return loc, proj + [("index", m.group(2))]
        m = re.fullmatch(r"(.*)\[(\d+) of (\d+)\]", p)
        if m:
            loc, proj = self.parse_place(m.group(1))
            return loc, proj + [("cindex", int(m.group(2)))]
        raise Unsupported("place: " + p)

    def read_place(self, fn, p, st, frame):
        loc, proj = self.parse_place(p)
        if loc not in frame:
            raise Unsupported(f"read of unset local {loc} in {fn.path}")
        v = frame[loc].v
        return self._project(v, proj, st, frame)

    def _project(self, v, proj, st, frame):
        for pr in proj:
            if pr[0] == "deref":
                if not isinstance(v, Ref):
                    raise Unsupported(f"deref of {v!r}")
                v = self._get_path(v.cell.v, list(v.path))
            elif pr[0] == "field":
                if isinstance(v, Overflowed):
                    if pr[1] == 0:
                        if hash(v.raw) in st.in_range:
                            v = v.raw
                        else:
                            v = tm.wrap(v.raw, v.bits, v.signed)
                    else:
                        v = tm.not_(tm.in_range(v.raw, v.bits, v.signed))
                elif isinstance(v, Agg):
                    v = v.fields[pr[1]]
                elif isinstance(v, tuple) and v and v[0] == "variant":
                    v = v[1][pr[1]]
                else:
                    raise Unsupported(f"field of {v!r}")
            elif pr[0] == "downcast":
                if not isinstance(v, Enum):
                    raise Unsupported(f"downcast of {v!r}")
                idx = self.variant_index(v, pr[1])
                if idx not in v.pay:
                    raise Unsupported(f"downcast to variant {pr[1]} without payload in {v!r}")
                v = ("variant", v.pay[idx])
            elif pr[0] == "index":
                i = frame[pr[1]].v
                if not (isinstance(i, T) and i.is_const):
                    raise Unsupported("symbolic index")
                v = v.fields[i.val]
            elif pr[0] == "cindex":
                v = v.fields[pr[1]]
        return v

    def variant_index(self, v, name):
        if v.ety and v.ety in self.prog.enums and name in self.prog.enums[v.ety]:
            return self.prog.enums[v.ety][name]
        for en, vs in self.prog.enums.items():
            if name in vs and (v.ety is None or en == v.ety):
                return vs[name]
        for en, vs in self.prog.enums.items():
            if name in vs:
                return vs[name]
        raise Unsupported("unknown variant " + name)

    def write_place(self, fn, p, val, st, frame):
        loc, proj = self.parse_place(p)
        if not proj:
            if loc in frame:
                frame[loc].v = val
            else:
                frame[loc] = Cell(val)
            return
        # resolve to a (cell, path) then functional update
        cell = frame[loc]
        path = []
        for pr in proj:
            if pr[0] == "deref":
                r = self._get_path(cell.v, path)
                if not isinstance(r, Ref):
                    raise Unsupported("write through non-ref")
                cell, path = r.cell, list(r.path)
            elif pr[0] == "field":
                path.append(pr[1])
            elif pr[0] == "cindex":
                path.append(pr[1])
            elif pr[0] == "index":
                i = frame[pr[1]].v
                if not (isinstance(i, T) and i.is_const):
                    raise Unsupported("symbolic index write")
                path.append(i.val)
            else:
                raise Unsupported("write projection " + str(pr))
        cell.v = self._set_path(cell.v, path, val)

    def _get_path(self, v, path):
        for i in path:
            if isinstance(i, tuple):  # ("v", variant index): the payload of that variant
                if not isinstance(v, Enum) or i[1] not in v.pay:
                    raise Unsupported(f"payload of variant {i[1]} of {v!r}")
                v = Agg(v.pay[i[1]])
            else:
                v = v.fields[i]
        return v

    def _set_path(self, v, path, val):
        if not path:
            return val
        if not isinstance(v, Agg):
            raise Unsupported(f"field write into {v!r}")
        f = list(v.fields)
        f[path[0]] = self._set_path(f[path[0]], path[1:], val)
        return Agg(f)

    # ------------------------------------------------------------------ operands / rvalues
    def eval_operand(self, fn, o, st, frame):
        o = o.strip()
        if o.startswith("copy "):
            return self.read_place(fn, o[5:], st, frame)
        if o.startswith("move "):
            return self.read_place(fn, o[5:], st, frame)
        if o.startswith("const "):
            return self.eval_const(fn, o[6:].strip(), st)
        raise Unsupported("operand: " + o)

    def eval_const(self, fn, c, st):
        m = re.fullmatch(r"(-?\d+)_([iu](?:8|16|32|64|128|size))", c)
        if m:
            return I(int(m.group(1)))
        m = re.fullmatch(r"([iu](?:8|16|32|64|128|size))::(MIN|MAX)", c)
        if m:
            bits, signed = INT_TYPES[m.group(1)]
            lo, hi = tm.ty_range(bits, signed)
            return I(lo if m.group(2) == "MIN" else hi)
        m = re.fullmatch(r"(?:core|std)::num::<impl ([iu](?:8|16|32|64|128|size))>::(MIN|MAX|BITS)", c)
        if m:
            bits, signed = INT_TYPES[m.group(1)]
            lo, hi = tm.ty_range(bits, signed)
            return I({"MIN": lo, "MAX": hi, "BITS": bits}[m.group(2)])
        if c in getattr(self, "const_env", {}):
            return I(self.const_env[c])
        if c == "true":
            return B(True)
        if c == "false":
            return B(False)
        if c == "()":
            return Agg([])
        if c.startswith('"') or c.startswith("b\""):
            return Opaque("str " + c[:30])
        m = re.fullmatch(r"'(.)'", c)
        if m:
            return I(ord(m.group(1)))
        # named constant / promoted / unit struct / enum literal
        v = self.eval_named_const(fn, c, st)
        if v is not None:
            return v
        return Opaque("const " + c)

    def eval_named_const(self, fn, c, st):
        # enum literal with args: Result::<A, B>::Err(OverflowError)
        m = re.match(r"^([A-Za-z_0-9:]+?)(?:::<.*>)?::([A-Z][A-Za-z_0-9]*)(\(.*\))?$", c)
        if m:
            ety = m.group(1).split("::")[-1]
            if ety in self.prog.enums and m.group(2) not in self.prog.enums[ety]:
                for alt in getattr(self.prog, "enums_alt", {}).get(ety, []):
                    if m.group(2) in alt:
                        idx = alt[m.group(2)]
                        pay = {}
                        if m.group(3):
                            pay[idx] = [self.eval_const(fn, x, st) for x in split_top(m.group(3)[1:-1])]
                        return Enum(idx, pay, ety)
            if ety in self.prog.enums and m.group(2) in self.prog.enums[ety]:
                idx = self.prog.enums[ety][m.group(2)]
                pay = {}
                if m.group(3):
                    inner = m.group(3)[1:-1]
                    pay[idx] = [self.eval_const(fn, x, st) for x in split_top(inner)]
                return Enum(idx, pay, ety)
        # const item in the dump: Type::NAME or fnpath::promoted[k]
        name = re.sub(r"::<[^<>]*>", "", c)  # LineBreaker::<'_>::f::<F>::promoted[1] -> LineBreaker::f::promoted[1]
        cands = []
        segs = name.split("::")
        for k in range(len(segs)):
            key = "::".join(segs[k:])
            cs = [f for f in self.prog.by_path.get(key, []) if f.kind == "const"]
            if cs:
                # filter by impl type when present
                if k > 0 and len(cs) > 1:
                    ty = segs[k - 1]
                    cs2 = [f for f in cs if f.impl_loc and _base(self.prog.impl_info.get((f.crate,) + f.impl_loc, (None, None))[1]) == ty]
                    if cs2:
                        cs = cs2
                if "promoted" in key and len(cs) > 1:
                    cs2 = [f for f in cs if f.impl_loc == fn.impl_loc and f.crate == fn.crate]
                    if cs2:
                        cs = cs2
                cands = cs
                break
        if cands:
            sub = State()
            res = self.exec_fn(cands[0], [], sub, 0)
            if len(res) != 1:
                raise Unsupported("const with several paths: " + c)
            return res[0][1]
        # unit struct
        if re.fullmatch(r"[A-Za-z_0-9:]+", c) and c.split("::")[-1] in self.prog.structs | {"OverflowError": 1}:
            return Agg([])
        if re.fullmatch(r"[A-Z][A-Za-z_0-9]*", c):
            return Agg([])
        return None

    def eval_rvalue(self, fn, r, st, frame, lhs):
        # references
        if r.startswith("&raw const (fake) ") or r.startswith("&raw mut (fake) "):
            return self.make_ref(fn, r.split("(fake) ", 1)[1].strip(), st, frame)
        if r.startswith("&raw "):
            raise Unsupported("raw pointer")
        if r.startswith("&"):
            p = r[1:].strip()
            if p.startswith("mut "):
                p = p[4:]
            if p.startswith("fake shallow ") or p.startswith("fake "):
                p = p.split(" ", 2)[-1]
            return self.make_ref(fn, p, st, frame)
        if r.startswith("discriminant("):
            v = self.read_place(fn, r[len("discriminant("):-1], st, frame)
            if isinstance(v, Enum):
                return v.tag
            raise Unsupported(f"discriminant of {v!r}")
        # cast
        m = re.match(r"^(.*) as ([^()]+?) \((\w+)(?:\(.*\))?\)$", r)
        if m and m.group(1).startswith(("copy ", "move ", "const ")):
            v = self.eval_operand(fn, m.group(1), st, frame)
            kind = m.group(3)
            dst = m.group(2).strip()
            if kind == "IntToInt":
                if isinstance(v, Enum):
                    v = v.tag
                it = self.int_ty(dst)
                if it is None:
                    raise Unsupported("cast to " + dst)
                src_ty = self.operand_type(fn, m.group(1))
                sit = self.int_ty(src_ty) if src_ty else None
                if sit is not None:
                    lo, hi = tm.ty_range(*sit)
                    dlo, dhi = tm.ty_range(*it)
                    if dlo <= lo and hi <= dhi:
                        return v
                return tm.wrap(v, it[0], it[1])
            if kind in ("Transmute", "PtrToPtr", "PointerCoercion"):
                return v
            raise Unsupported("cast kind " + kind)
        if r.startswith("no_retag "):
            r = r[len("no_retag "):]
        if r.startswith("deref_copy "):
            return self.read_place(fn, r[len("deref_copy "):], st, frame)
        # operand
        if r.startswith(("copy ", "move ", "const ")):
            return self.eval_operand(fn, r, st, frame)
        # Op(args)
        m = re.match(r"^([A-Za-z]+)\((.*)\)$", r)
        if m and m.group(1) in ("PtrMetadata", "Len"):
            v = self.eval_operand(fn, m.group(2), st, frame) if m.group(2).startswith(("copy ", "move ")) else self.read_place(fn, m.group(2), st, frame)
            v = self.deref(v)
            if isinstance(v, Agg):
                return I(len(v.fields))
            raise Unsupported("length of " + repr(v))
        if m and m.group(1) in BINOPS | UNOPS | {"AddWithOverflow", "SubWithOverflow", "MulWithOverflow", "Len", "PtrMetadata",
                                                  "AddUnchecked", "SubUnchecked", "MulUnchecked", "ShlUnchecked", "ShrUnchecked", "Cmp"}:
            op = m.group(1)
            args = split_top(m.group(2))
            vals = [self.eval_operand(fn, a, st, frame) for a in args]
            ty = self.operand_type(fn, args[0])
            if ty is None and len(args) > 1 and op not in ("Shl", "Shr", "ShlUnchecked", "ShrUnchecked"):
                ty = self.operand_type(fn, args[1])  # e.g. SubWithOverflow(const AWFUL_BAD, copy _7)
            if ty is None and op.endswith("WithOverflow"):
                mt = re.match(r"^\((.*), bool\)$", (self.local_type(fn, lhs) or "").strip())
                if mt:
                    ty = mt.group(1)
            return self.eval_op(fn, op, vals, ty, self.local_type(fn, lhs), st)
        # tuple
        if r.startswith("(") and r.endswith(")"):
            inner = r[1:-1]
            return Agg([self.eval_operand(fn, a, st, frame) for a in split_top(inner)])
        if r.startswith("[") and r.endswith("]"):
            inner = r[1:-1]
            if ";" in inner and not inner.strip().startswith(("copy", "move", "const")) is False:
                pass
            mrep = re.match(r"^(.*); (\d+)$", inner)
            if mrep and len(split_top(inner)) == 1:
                v = self.eval_operand(fn, mrep.group(1), st, frame)
                return Agg([v] * int(mrep.group(2)))
            return Agg([self.eval_operand(fn, a, st, frame) for a in split_top(inner)])
        # closure literal  {closure@file:l:c: l:c} { captured: op, .. }
        m = re.match(r"^\{closure@([^}]+)\}(?: \{ (.*) \})?$", r)
        if m:
            caps = [self.eval_operand(fn, part.split(": ", 1)[1], st, frame) for part in split_top(m.group(2))] if m.group(2) else []
            return Closure(caps, m.group(1))
        # struct literal  Name { a: op, b: op }
        m = re.match(r"^([A-Za-z_0-9:<>, ]+?) \{ (.*) \}$", r)
        if m:
            name = re.sub(r"::<.*>", "", m.group(1)).split("::")[-1]
            fields = {}
            for part in split_top(m.group(2)):
                k, v = part.split(": ", 1)
                fields[k.strip()] = self.eval_operand(fn, v, st, frame)
            order = self.prog.structs.get(name)
            if order is None or set(order) != set(fields):
                alts = [o_ for o_ in getattr(self.prog, "structs_all", {}).get(name, []) if set(o_) == set(fields)]
                if len(alts) != 1:
                    raise Unsupported("struct literal " + name)
                order = alts[0]
            return Agg([fields[k] for k in order])
        # enum variant / tuple struct constructor: Path(args) or Path (unit)
        if r.endswith(")"):
            d = 0
            open_idx = None
            for j in range(len(r) - 1, -1, -1):
                if r[j] == ")":
                    d += 1
                elif r[j] == "(":
                    d -= 1
                    if d == 0:
                        open_idx = j
                        break
            head, inner = r[:open_idx], r[open_idx + 1:-1]
            has_args = True
        else:
            head, inner, has_args = r, "", False
        if re.fullmatch(r"[A-Za-z_0-9:<>, &'\[\]()]+", head):
            path = _strip_generics(head)
            segs = path.split("::")
            args = [self.eval_operand(fn, a, st, frame) for a in split_top(inner)] if has_args else []
            if len(segs) >= 2 and segs[-2] in self.prog.enums and segs[-1] in self.prog.enums[segs[-2]]:
                idx = self.prog.enums[segs[-2]][segs[-1]]
                return Enum(idx, {idx: args} if has_args else {}, segs[-2])
            if len(segs) >= 2:
                for alt in getattr(self.prog, "enums_alt", {}).get(segs[-2], []):
                    if segs[-1] in alt:
                        idx = alt[segs[-1]]
                        return Enum(idx, {idx: args} if has_args else {}, segs[-2])
            if len(segs) == 1:
                # bare variant of an imported enum (`_1 = Explicit;`, `_2 = Exact(move _3);`): the destination's type names the enum
                lty = _strip_generics(self.local_type(fn, lhs) or "").split("::")[-1]
                if lty in self.prog.enums and segs[0] in self.prog.enums[lty]:
                    idx = self.prog.enums[lty][segs[0]]
                    return Enum(idx, {idx: args} if has_args else {}, lty)
            # tuple struct (or unit struct)
            return Agg(args)
        raise Unsupported("rvalue: " + r)

    def make_ref(self, fn, p, st, frame):
        loc, proj = self.parse_place(p)
        cell = frame.get(loc)
        if cell is None:
            cell = frame[loc] = Cell(None)
        path = []
        for pr in proj:
            if pr[0] == "deref":
                r = self._get_path(cell.v, path)
                if not isinstance(r, Ref):
                    raise Unsupported("reborrow through non-ref")
                cell, path = r.cell, list(r.path)
            elif pr[0] in ("field", "cindex"):
                path.append(pr[1])
            elif pr[0] == "index":
                i = frame[pr[1]].v
                if not (isinstance(i, T) and i.is_const):
                    raise Unsupported("symbolic index ref")
                path.append(i.val)
            elif pr[0] == "downcast":
                # reference into the payload of an enum variant (read-only use)
                e = self._get_path(cell.v, path)
                if not isinstance(e, Enum):
                    raise Unsupported("downcast ref of " + repr(e))
                path.append(("v", self.variant_index(e, pr[1])))
            else:
                raise Unsupported("ref projection " + str(pr))
        return Ref(cell, path)

    def write_ref(self, r, val):
        r.cell.v = self._set_path(r.cell.v, list(r.path), val)

    def deref(self, v):
        if isinstance(v, Ref):
            return self._get_path(v.cell.v, list(v.path))
        return v

    def local_type(self, fn, p):
        try:
            loc, proj = self.parse_place(p)
        except Unsupported:
            return None
        if proj:
            m = re.search(r": ([^()]+)\)$", p)
            return m.group(1) if m else None
        return fn.types.get(loc)

    def operand_type(self, fn, o):
        o = o.strip()
        if o.startswith(("copy ", "move ")):
            p = o[5:].strip()
            if re.fullmatch(r"_\d+", p):
                return fn.types.get(p)
            m = re.search(r": ([^():]+)\)$", p)
            if m:
                return m.group(1).strip()
            return None
        m = re.fullmatch(r"const -?\d+_([iu](?:8|16|32|64|128|size))", o)
        if m:
            return m.group(1)
        m = re.fullmatch(r"const ([iu](?:8|16|32|64|128|size))::(MIN|MAX)", o)
        if m:
            return m.group(1)
        if o in ("const true", "const false"):
            return "bool"
        return None

    def eval_op(self, fn, op, vals, ty, lhs_ty, st):
        vals = [v.tag if isinstance(v, Enum) else v for v in vals]
        for v in vals:
            if not isinstance(v, T):
                raise Unsupported(f"{op} on an unmodelled value {v!r}")
        it = self.int_ty(ty) if ty else None
        if op in ("AddWithOverflow", "SubWithOverflow", "MulWithOverflow"):
            if it is None:
                raise Unsupported(f"{op} on {ty}")
            a, b = vals
            if op[0] == "M" and getattr(self, "uf_mul", None) and not a.is_const and not b.is_const:
                raw = self.uf_mul(a, b, st)  # summarised symbolic x symbolic product (+ its lemmas on the path)
            else:
                raw = {"A": tm.add, "S": tm.sub, "M": tm.mul}[op[0]](a, b)
            return Overflowed(raw, it[0], it[1])
        if op in ("Add", "Sub", "Mul", "AddUnchecked", "SubUnchecked", "MulUnchecked"):
            if it is None:
                raise Unsupported(f"{op} on {ty}")
            a, b = vals
            raw = {"A": tm.add, "S": tm.sub, "M": tm.mul}[op[0]](a, b)
            if hash(raw) in st.in_range:
                return raw
            return tm.wrap(raw, it[0], it[1])
        if op == "Div":
            a, b = vals
            if it and not it[1]:
                return tm.ediv(a, b)
            return tm.tdiv(a, b)
        if op == "Rem":
            a, b = vals
            if it and not it[1]:
                return tm.emod(a, b)
            return tm.trem(a, b)
        if op == "Neg":
            (a,) = vals
            if it is None:
                raise Unsupported("Neg on " + str(ty))
            return tm.wrap(tm.neg(a), it[0], it[1])
        if op == "Not":
            (a,) = vals
            if a.sort == "B":
                return tm.not_(a)
            if it is None:
                raise Unsupported("Not on " + str(ty))
            # bitwise not: -a-1 (signed), 2^k-1-a (unsigned)
            return tm.sub(tm.neg(a), I(1)) if it[1] else tm.sub(I((1 << it[0]) - 1), a)
        if op in ("Eq", "Ne", "Lt", "Le", "Gt", "Ge"):
            a, b = vals
            if a.sort == "B":
                if op == "Eq":
                    return tm.or_(tm.and_(a, b), tm.and_(tm.not_(a), tm.not_(b)))
                if op == "Ne":
                    return tm.or_(tm.and_(a, tm.not_(b)), tm.and_(tm.not_(a), b))
                raise Unsupported("ordering on bool")
            return {"Eq": tm.eq, "Ne": tm.ne, "Lt": tm.lt, "Le": tm.le, "Gt": tm.gt, "Ge": tm.ge}[op](a, b)
        if op in ("BitAnd", "BitOr", "BitXor"):
            a, b = vals
            if a.sort == "B":
                if op == "BitAnd":
                    return tm.and_(a, b)
                if op == "BitOr":
                    return tm.or_(a, b)
                return tm.or_(tm.and_(a, tm.not_(b)), tm.and_(tm.not_(a), b))
            if a.is_const and b.is_const and it:
                m = (1 << it[0]) - 1
                x, y = a.val & m, b.val & m
                r = {"BitAnd": x & y, "BitOr": x | y, "BitXor": x ^ y}[op]
                return tm.wrap(I(r), it[0], it[1])
            # x & (2^k - 1) on a non-negative value
            if op == "BitAnd" and b.is_const and (b.val + 1) & b.val == 0 and b.val >= 0 and it and not it[1]:
                return tm.emod(a, I(b.val + 1))
            raise Unsupported(f"{op} on symbolic integers")
        if op in ("Shl", "Shr", "ShlUnchecked", "ShrUnchecked"):
            a, b = vals
            if not b.is_const:
                raise Unsupported("shift by symbolic amount")
            if it is None:
                raise Unsupported("shift on " + str(ty))
            k = b.val % it[0]
            if op.startswith("Shl"):
                return tm.wrap(tm.mul(a, I(1 << k)), it[0], it[1])
            return tm.ediv(a, I(1 << k))  # arithmetic shift = floor division
        if op == "Cmp":
            a, b = vals
            return Enum(tm.ite(tm.lt(a, b), I(-1), tm.ite(tm.eq(a, b), I(0), I(1))), {}, "Ordering")
        raise Unsupported("op " + op)

    # ------------------------------------------------------------------ terminators
    def exec_term(self, fn, t, st, frame, fidx, depth, results, work, visits):
        if t.startswith("goto -> "):
            return t[8:].strip()
        if t == "return":
            results.append((st, frame["_0"].v if "_0" in frame else Agg([])))
            return None
        if t == "unreachable":
            # rustc proved it unreachable under its own type invariants; we check that too
            self.obligations.append({"kind": "unreachable", "msg": "MIR `unreachable` reached", "pc": list(st.pc), "fn": fn.path})
            return None
        if t.startswith("switchInt("):
            m = re.match(r"^switchInt\((.*)\) -> \[(.*)\]$", t)
            v = self.eval_operand(fn, m.group(1), st, frame)
            if isinstance(v, Enum):
                v = v.tag
            arms = []
            sw_ty = self.int_ty(self.operand_type(fn, m.group(1)) or "")
            for part in split_top(m.group(2)):
                k, tgt = part.split(": ")
                if k == "otherwise":
                    arms.append((None, tgt.strip()))
                else:
                    kv = int(k)
                    # switchInt prints the bit pattern: 255 on an i8 discriminant is -1
                    if sw_ty and sw_ty[1] and kv >= (1 << (sw_ty[0] - 1)):
                        kv -= 1 << sw_ty[0]
                    arms.append((kv, tgt.strip()))
            viable = []
            for k, tgt in arms:
                if k is None:
                    if v.sort == "B":
                        cond = tm.and_(*[(v if kk == 0 else tm.not_(v)) for kk, _ in arms if kk is not None]) if False else None
                        # otherwise on bool with [0: ..]: value is true
                        ks = [kk for kk, _ in arms if kk is not None]
                        cond = tm.and_(*[(v if kk == 0 else tm.not_(v)) for kk in ks])
                    else:
                        cond = tm.and_(*[tm.ne(v, I(kk)) for kk, _ in arms if kk is not None])
                else:
                    if v.sort == "B":
                        cond = tm.not_(v) if k == 0 else v
                    else:
                        cond = tm.eq(v, I(k))
                if cond.is_const and not cond.val:
                    continue
                viable.append((cond, tgt))
            if len(viable) > 1 and PRUNER is not None:
                viable = [(c, t_) for (c, t_) in viable if feasible(st, c)]
                if not viable:
                    return None
            if not viable:
                return None
            last = None
            for i, (cond, tgt) in enumerate(viable):
                s2 = st if i == len(viable) - 1 else st.fork()
                s2.assume(cond)
                if i == len(viable) - 1:
                    last = tgt
                else:
                    work.append((s2, tgt, visits))
            return last
        if t.startswith("assert("):
            m = re.match(r"^assert\((.*)\) -> \[success: (bb\d+)(?:, unwind[^\]]*)?\]$", t)
            inner = split_top(m.group(1))
            c = inner[0]
            negate = c.startswith("!")
            if negate:
                c = c[1:]
            cv = self.eval_operand(fn, c, st, frame)
            ok = tm.not_(cv) if negate else cv
            msg = inner[1] if len(inner) > 1 else "assert"
            if not (ok.is_const and ok.val):
                self.obligations.append({"kind": "panic", "msg": msg.strip('"'), "pc": list(st.pc) + [tm.not_(ok)], "fn": fn.path})
            if ok.is_const and not ok.val:
                return None
            st.assume(ok)
            # remember in-range facts for *WithOverflow results
            mm = re.match(r"^(?:move|copy) \((_\d+)\.1: bool\)$", c)
            if mm and negate:
                ov = frame[mm.group(1)].v
                if isinstance(ov, Overflowed):
                    st.in_range.add(hash(ov.raw))
            return m.group(2)
        if t.startswith("drop("):
            m = re.match(r"^drop\(.*\) -> \[return: (bb\d+)", t)
            return m.group(1)
        # call
        m = re.match(r"^(.*?) = (.*) -> \[return: (bb\d+)(?:, unwind[^\]]*)?\]$", t)
        if m:
            dest, call, tgt = m.group(1), m.group(2), m.group(3)
            rets = self.exec_call(fn, call, st, frame, depth)
            for i, (s2, val) in enumerate(rets):
                fr2 = s2.frames[fidx]
                self.write_place(fn, dest, val, s2, fr2)
                if i == len(rets) - 1:
                    last_state = s2
                else:
                    work.append((s2, tgt, visits))
            if not rets:
                return None
            if rets[-1][0] is not st:
                # continue on the last returned state
                work.append((rets[-1][0], tgt, visits))
                return None
            return tgt
        m = re.match(r"^(.*?) = (.*) -> unwind", t)
        if m:
            # diverging call (panic)
            self.obligations.append({"kind": "panic", "msg": "diverging call " + m.group(2)[:60], "pc": list(st.pc), "fn": fn.path})
            return None
        if re.match(r"^[A-Za-z_:<>]+.*\(.*\) -> unwind", t) or "-> unwind continue" in t:
            self.obligations.append({"kind": "panic", "msg": "diverging call " + t[:60], "pc": list(st.pc), "fn": fn.path})
            return None
        raise Unsupported("terminator: " + t)

    # ------------------------------------------------------------------ calls
    def exec_call(self, fn, call, st, frame, depth):
        p = call.rindex("(") if call.endswith(")") else None
        # find the '(' that opens the argument list: match from the end
        depth_ = 0
        open_idx = None
        for j in range(len(call) - 1, -1, -1):
            c = call[j]
            if c == ")":
                depth_ += 1
            elif c == "(":
                depth_ -= 1
                if depth_ == 0:
                    open_idx = j
                    break
        callee = call[:open_idx].strip()
        argstrs = split_top(call[open_idx + 1:-1])
        args = [self.eval_operand(fn, a, st, frame) for a in argstrs]
        argtys = [self.operand_type(fn, a) for a in argstrs]
        # 1. std models
        for pat, model in self.models:
            mm = pat.match(callee)
            if mm:
                r = model(self, mm, args, argtys, st, fn)
                if r is not NotImplemented:  # a model may decline (e.g. a summary that only applies to symbolic operands)
                    return r
        # 2. functions in the dump
        target = self.resolve(callee, fn)
        if target is not None:
            return self.exec_fn(target, args, st, depth + 1)
        raise Unsupported("call to " + callee)

    def resolve(self, callee, fn):
        c = callee
        # <Type as Trait<..>>::method
        m = re.match(r"^<(.+) as (.+)>::([A-Za-z_0-9]+)$", c)
        if m:
            ty, tr, name = m.group(1), m.group(2), m.group(3)
            cands = self.prog.find_fn(name, self_ty=ty, trait=tr)
            if len(cands) >= 1:
                return cands[0]
            return None
        c2 = _strip_generics(c)
        segs = c2.split("::")
        name = segs[-1]
        if len(segs) >= 2:
            ty = segs[-2]
            cands = self.prog.find_fn(name, self_ty=ty)
            cands = [f for f in cands if f.kind == "fn"]
            if cands:
                return cands[0]
        # free function (possibly module-qualified)
        for k in range(len(segs)):
            key = "::".join(segs[k:])
            cands = [f for f in self.prog.by_path.get(key, []) if f.kind == "fn" and f.impl_loc is None]
            if cands:
                same = [f for f in cands if f.crate == fn.crate]
                return (same or cands)[0]
        return None


BINOPS = {"Add", "Sub", "Mul", "Div", "Rem", "Eq", "Ne", "Lt", "Le", "Gt", "Ge", "BitAnd", "BitOr", "BitXor", "Shl", "Shr"}
UNOPS = {"Neg", "Not"}


def _strip_generics(s):
    out, depth = [], 0
    i = 0
    while i < len(s):
        c = s[i]
        if c == "<":
            depth += 1
        elif c == ">" and (i == 0 or s[i - 1] not in "-="):
            depth -= 1
        elif depth == 0:
            out.append(c)
        i += 1
    r = "".join(out)
    r = r.replace("::::", "::")
    return r.rstrip(":")
