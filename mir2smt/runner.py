"""Engine B runner: MIR dump of /repo's current tree -> symbolic execution -> SMT queries (z3 + cvc5)."""
import glob
import json
import os
import re
import shutil
import subprocess
import time

from . import term as tm
from .term import I, B, T
from .execmir import Program, Executor, State, Agg, Enum, Ref, Cell, Unsupported, INT_TYPES
from . import models as _models
from . import solve

HERE = os.path.dirname(os.path.dirname(os.path.abspath(__file__)))
CACHE = os.path.join(HERE, ".cache")
REPO = "/repo"

_PROG_CACHE = {}


def dump_mir(crate):
    """MIR of /repo/crates/<crate> as compiled now (nightly, overflow checks on, debug assertions off)."""
    os.makedirs(os.path.join(CACHE, "mir"), exist_ok=True)
    if os.environ.get("VERIF_MIR_NO_DUMP") == "1":
        # worker process: the parent dumped this crate a moment ago in the same run
        return open(os.path.join(CACHE, "mir", crate + ".mir")).read()
    target = os.path.join(CACHE, "mir_target")
    pkg = crate
    # force rustc to run again (a fresh cargo fingerprint produces no output)
    for d in glob.glob(os.path.join(target, "debug", ".fingerprint", pkg.replace("_", "-") + "-*")):
        shutil.rmtree(d, ignore_errors=True)
    env = dict(os.environ)
    env["CARGO_NET_OFFLINE"] = "true"
    env.pop("RUSTUP_TOOLCHAIN", None)
    feats = {"texcraft-stdext": ["--features", "color"]}.get(pkg, [])  # does not compile without it (pre-existing)
    cmd = ["cargo", "+nightly", "rustc", "--offline", "-p", pkg, "--lib"] + feats + ["--target-dir", target, "--",
           "-Zunpretty=mir", "-C", "debug-assertions=off", "-C", "overflow-checks=on"]
    p = subprocess.run(cmd, cwd=REPO, env=env, stdout=subprocess.PIPE, stderr=subprocess.PIPE)
    text = p.stdout.decode(errors="replace")
    if p.returncode != 0 or "fn " not in text:
        raise RuntimeError(f"MIR dump of {crate} failed: " + p.stderr.decode(errors="replace")[-800:])
    with open(os.path.join(CACHE, "mir", crate + ".mir"), "w") as f:
        f.write(text)
    return text


def program(crates):
    key = tuple(crates)
    if key in _PROG_CACHE:
        return _PROG_CACHE[key]
    prog = Program()
    for c in crates:
        text = dump_mir(c)
        prog.add_crate(c, text, os.path.join(REPO, "crates", c))
    scan_field_types(prog, crates)
    _PROG_CACHE[key] = prog
    return prog


def scan_field_types(prog, crates):
    """struct name -> [(field, type)] (named and tuple structs), from the crates' sources."""
    from .mirparse import split_top, _match_close
    prog.field_types = {}
    for c in crates:
        for root, _, files in os.walk(os.path.join(REPO, "crates", c, "src")):
            for fn in files:
                if not fn.endswith(".rs"):
                    continue
                text = re.sub(r"//[^\n]*", "", open(os.path.join(root, fn), errors="replace").read())
                for m in re.finditer(r"\bstruct\s+([A-Za-z_0-9]+)\s*(?:<[^>{(]*>)?\s*\{", text):
                    body = text[m.end():_match_close(text, m.end() - 1)]
                    fs = []
                    for part in split_top(body):
                        part = re.sub(r"#\[[^\]]*\]", "", part).strip()
                        mm = re.match(r"(?:pub(?:\([^)]*\))?\s+)?([A-Za-z_0-9]+)\s*:\s*(.*)$", part, re.S)
                        if mm:
                            fs.append((mm.group(1), mm.group(2).strip()))
                    prog.field_types.setdefault(m.group(1), fs)
                for m in re.finditer(r"\bstruct\s+([A-Za-z_0-9]+)\s*(?:<[^>{(]*>)?\s*\(", text):
                    body = text[m.end():_match_close(text, m.end() - 1)]
                    fs = []
                    for k, part in enumerate(split_top(body)):
                        part = re.sub(r"#\[[^\]]*\]", "", part).strip()
                        part = re.sub(r"^pub(?:\([^)]*\))?\s+", "", part)
                        fs.append((str(k), part))
                    prog.field_types.setdefault(m.group(1), fs)


class Sym:
    """Builds symbolic argument values by Rust type; collects the type-range assumptions.
    With `consts` (name -> int) the same structure is built from constants (concrete interpretation)."""

    def __init__(self, prog, consts=None):
        self.prog = prog
        self.assumes = []
        self.vars = {}
        self.consts = consts

    def make(self, ty, name, lenient=False):
        ty = ty.strip()
        if ty.startswith("&"):
            inner = ty[1:].strip()
            inner = re.sub(r"^'[a-z_]+\s+", "", inner)
            if inner.startswith("mut "):
                inner = inner[4:]
            return Ref(Cell(self.make(inner, name, lenient)))
        if self.consts is not None and (ty in INT_TYPES or ty == "bool" or ty.split("::")[-1] in self.prog.enums):
            self.vars[name] = ty
            base = ty.split("::")[-1]
            if ty == "bool":
                return B(bool(self.consts[name]))
            if base in self.prog.enums and ty not in INT_TYPES:
                return Enum(I(self.consts[name]), {}, base)
            return I(self.consts[name])
        if ty in INT_TYPES and name in getattr(self, "partial", {}):
            self.vars[name] = ty
            return I(self.partial[name])
        if ty in INT_TYPES:
            v = tm.V(name)
            bits, signed = INT_TYPES[ty]
            self.assumes.append(tm.in_range(v, bits, signed))
            self.vars[name] = ty
            return v
        if ty == "bool":
            self.vars[name] = ty
            return tm.V(name, "B")
        base = ty.split("::")[-1]
        base = re.sub(r"<.*$", "", base)
        if base in self.prog.field_types:
            out = []
            for fname, fty in self.prog.field_types[base]:
                try:
                    out.append(self.make(fty, f"{name}.{fname}", True))
                except Unsupported:
                    from .execmir import Opaque
                    out.append(Opaque(f"{name}.{fname}: {fty}"))
            return Agg(out)
        if base in self.prog.enums:
            vs = self.prog.enums[base]
            v = tm.V(name)
            self.assumes.append(tm.or_(*[tm.eq(v, I(k)) for k in sorted(vs.values())]))
            self.vars[name] = "enum " + base
            return Enum(v, {}, base)
        if lenient or ty.startswith("opaque"):
            from .execmir import Opaque
            return Opaque(f"{name}: {ty}")
        raise Unsupported("symbolic value of type " + ty)


def concretize(v, model):
    """Value structure -> plain python using a model (for reporting)."""
    if isinstance(v, T):
        return _eval(v, model)
    if isinstance(v, Agg):
        return [concretize(f, model) for f in v.fields]
    if isinstance(v, Enum):
        return {"tag": concretize(v.tag, model)}
    if isinstance(v, Ref):
        return concretize(v.cell.v, model)
    return repr(v)


def _eval(t, model):
    if t.op == "const":
        return t.val
    if t.op == "var":
        return model.get(t.args[0], 0)
    a = [_eval(x, model) for x in t.args]
    op = t.op
    if op == "+":
        return a[0] + a[1]
    if op == "-":
        return -a[0] if len(a) == 1 else a[0] - a[1]
    if op == "*":
        return a[0] * a[1]
    if op == "div":
        return a[0] // a[1] if a[1] > 0 else -(a[0] // -a[1])
    if op == "mod":
        return a[0] % abs(a[1])
    if op == "ite":
        return a[1] if a[0] else a[2]
    if op == "<":
        return a[0] < a[1]
    if op == "<=":
        return a[0] <= a[1]
    if op == "=":
        return a[0] == a[1]
    if op == "not":
        return not a[0]
    if op == "and":
        return all(a)
    if op == "or":
        return any(a)
    if op.startswith("uf_") and op[3:] in tm.UF_IMPL:
        return tm.UF_IMPL[op[3:]](*a)  # the summarised function itself (the solver's interpretation is not in the model)
    raise ValueError(op)


def _extra_models(o, args):
    """Obligation-specific environment stubs: [(regex, fn(ex, m, args, tys, st, fn, symargs))] ->
    models in the executor's format. A stub returns an arbitrary value of its type (a fresh or named
    symbolic variable): the environment is nondeterministic, constrained only by its contract."""
    out = []
    for pat, f in o.get("env_models", []):
        out.append((re.compile(pat), (lambda f: lambda ex, m, a, tys, st, fn: f(ex, m, a, tys, st, fn, args))(f)))
    return out


def flatten(v):
    if isinstance(v, T):
        if not v.is_const:
            raise ValueError("non-constant result in concrete interpretation: " + repr(v))
        return [int(v.val)]
    if isinstance(v, Agg):
        out = []
        for f in v.fields:
            out += flatten(f)
        return out
    if isinstance(v, Enum):
        t = v.tag.val
        out = [int(t)]
        for f in v.pay.get(t, []):
            out += flatten(f)
        return out
    if isinstance(v, Ref):
        return flatten(v.cell.v)
    raise ValueError("cannot flatten " + repr(v))


def interpret(prog, o, fn, consts):
    """Concrete MIR interpretation of the target on one input vector -> flat ints | 'panic'."""
    sym = Sym(prog, consts)
    if o.get("build_args"):
        symargs, argvals = o["build_args"](sym, {})
    else:
        argvals = [sym.make(aty, an) for (an, aty) in o["args"]]
        symargs = dict(zip([a for a, _ in o["args"]], argvals))
    symargs["__consts__"] = consts
    ex = Executor(prog, unroll=o.get("unroll", 8) + 64, models=_extra_models(o, symargs) + _models.MODELS)
    ex.const_env = o.get("const_generics", {})
    paths = ex.run(fn, argvals, State())
    for ob in ex.obligations:
        c = tm.and_(*ob["pc"])
        if c.is_const and c.val:
            return "panic"
    if len(paths) != 1:
        if o.get("env_models"):
            # nondeterministic environment stubs: the violation exists if some stub outcome violates the post-condition
            bad = 0
            for (s, ret) in paths:
                ok = o["post"](symargs, ret, s) if o.get("post_state") else o["post"](symargs, ret)
                if not (ok.is_const and ok.val):
                    bad += 1
            return [f"{len(paths)} stub outcomes", f"{bad} violate the post-condition"]
        raise ValueError(f"{len(paths)} paths in concrete interpretation")
    return flatten(paths[0][1])


BOUNDARY = {
    "i32": [0, 1, -1, 2, -2, 7, -7, 10, 100, 255, 256, 65535, 65536, -65536, 65537, (1 << 30) - 1, 1 << 30, -(1 << 30), (1 << 31) - 1, -(1 << 31), -(1 << 31) + 1, 7227, 1157, 12345678, -87654321],
    "i64": [0, 1, -1, 65536, -65536, (1 << 31), -(1 << 31), (1 << 40) + 3, -(1 << 40) - 3, (1 << 62), -(1 << 62), 1 << 16, 3, -3, 1000],
    "u32": [0, 1, 2, 255, 65535, 65536, (1 << 31), (1 << 32) - 1],
    "u8": [0, 1, 127, 128, 255],
    "i16": [0, 1, -1, 32767, -32768, 256],
    "u16": [0, 1, 255, 256, 65535],
    "bool": [0, 1],
}


def validation_vectors(prog, o, n=48, seed=0):
    import random
    rnd = random.Random(1234 + seed)
    sym = Sym(prog)
    for (an, aty) in o["args"]:
        sym.make(aty, an)
    names = list(sym.vars.items())
    vecs = []
    vecs += [dict(v) for v in o.get("native", {}).get("vectors", [])]
    if o.get("native", {}).get("vectors_only"):
        return vecs
    tries = 0
    while len(vecs) < n and tries < 50 * n:
        tries += 1
        v = {}
        for name, ty in names:
            if ty.startswith("enum "):
                v[name] = rnd.choice(sorted(prog.enums[ty[5:]].values()))
            else:
                v[name] = rnd.choice(BOUNDARY.get(ty, [0, 1]))
        flt = o.get("native", {}).get("vector_filter")
        if flt and not flt(v):
            continue
        vecs.append(v)
    return vecs


def validate_translation(prog, o, fn, seed=0):
    """Every run: the encoded function is executed natively and by concrete MIR interpretation on a
    fixed vector set (repo test values + type boundaries); any mismatch means the encoding is wrong."""
    nat = o.get("native")
    if not nat:
        return {"validated": 0, "note": "no public native entry point (private function): translator not cross-checked natively for this obligation"}
    from . import native
    vecs = validation_vectors(prog, o, seed=seed)
    calls = [(nat["fn"], [v[a] for a in nat["args"]]) for v in vecs]
    got = native.call_many(calls)
    bad = []
    for v, g in zip(vecs, got):
        try:
            mine = interpret(prog, o, fn, v)
        except Unsupported as e:
            raise
        if mine != g:
            bad.append({"input": v, "native": g, "mir_interpretation": mine})
    return {"validated": len(vecs), "mismatches": bad[:3]}


def find_target(prog, spec):
    crate, name, self_ty, trait = spec
    cands = prog.find_fn(name, self_ty=self_ty, trait=trait, crate=crate)
    cands = [f for f in cands if f.kind == "fn"]
    if not cands:
        raise Unsupported(f"function {spec} not found in the MIR dump of {crate}")
    exact = [f for f in cands if f.path == name]
    return (exact or cands)[0]


def run_obligation(prop, o, tier):
    """With o["sweep"] = (var, [values]) the obligation is decided once per value with that variable a
    constant (used where a symbolic operand makes the query non-linear and no solver finishes)."""
    sw = o.get("sweep_quick" if tier == "quick" else "sweep") or o.get("sweep")
    if not sw:
        return run_obligation_one(prop, o, tier, None)
    var, values = sw
    agg = None
    t0 = time.time()
    wseen = set()
    for v in values:
        r = run_obligation_one(prop, o, tier, {var: v})
        wseen |= set(r.get("witness_names", []))
        if agg is None:
            agg = r
            agg["sweep_values"] = 1
        else:
            agg["sweep_values"] += 1
            for k in ("solver_queries", "solver_s", "sym_states", "sym_transitions", "native_vectors"):
                agg[k] = agg.get(k, 0) + r.get(k, 0)
        if r["verdict"] != "holds":
            r["detail"] = f"[{var}={v}] " + r.get("detail", "")
            for k in ("solver_queries", "solver_s"):
                r[k] = agg.get(k, 0)
            r["seconds"] = time.time() - t0
            return r
    agg["witnesses_satisfied"] = len(wseen)
    if len(wseen) < agg.get("witnesses_total", 0):
        agg["verdict"] = "vacuous"
        agg["detail"] = "a witness was unsatisfiable for every sweep value"
    agg["seconds"] = time.time() - t0
    agg["sample"]["sweep"] = f"{var} bound to each of {len(values)} constants: {values[:6]}..."
    return agg


def run_obligation_one(prop, o, tier, bind):
    t0 = time.time()
    res = {"obligation": o, "solver_queries": 0, "solver_s": 0.0, "witnesses_total": 0, "witnesses_satisfied": 0}
    timeout = o.get("smt_timeout", 60 if tier == "quick" else 600)
    try:
        prog = program(o["crates"])
        fn = find_target(prog, o["fn"])
        sym = Sym(prog)
        if bind:
            sym.partial = dict(bind)
        args = {}
        argvals = []
        if o.get("build_args"):
            args, argvals = o["build_args"](sym, bind or {})
        else:
            for (an, aty) in o["args"]:
                v = sym.make(aty, an)
                args[an] = v
                argvals.append(v)
        pre = list(sym.assumes)
        if o.get("pre"):
            pre.append(o["pre"](args))
        val = validate_translation(prog, o, fn) if not (bind and o.get("_validated")) else {"validated": 0, "note": "validated on the first sweep value"}
        o["_validated"] = True
        res["translation_validation"] = val
        if val.get("mismatches"):
            res.update(verdict="inconclusive", seconds=time.time() - t0,
                       detail="MIR interpretation disagrees with the native build (encoding error): " + json.dumps(val["mismatches"][0])[:300])
            return res
        ex = Executor(prog, unroll=o.get("unroll", 8), models=_extra_models(o, args) + _models.MODELS, max_paths=o.get("max_paths", 20000))
        ex.const_env = o.get("const_generics", {})
        st = State()
        if o.get("uf_mul"):
            ex.uf_mul = o["uf_mul"]
        if o.get("prune"):
            from . import prune as _prune, execmir as _em
            _em.PRUNER = _prune.Pruner(budget_s=(o.get("realise_budget_s", 420) if (bind and bind.get("__realising")) else o.get("prune_budget_s", 1800)))
            st.pc = list(pre)  # the pruner needs the precondition on the path
        try:
            paths = ex.run(fn, argvals, st)
        finally:
            if o.get("prune"):
                res["pruning"] = {"queries": _em.PRUNER.queries, "branches_proved_infeasible": _em.PRUNER.pruned, "unknown_kept": _em.PRUNER.unknown}
                _em.PRUNER.close()
                _em.PRUNER = None
    except Unsupported as e:
        res.update(verdict="unsupported", detail=f"translator does not support: {e}", seconds=time.time() - t0)
        return res
    except (RuntimeError, ValueError) as e:
        res.update(verdict="build_error", detail=str(e)[:400], seconds=time.time() - t0)
        return res
    res["paths"] = len(paths)
    res["mir_functions"] = len(ex.called)
    res["sym_states"] = len(paths) + len(ex.obligations)
    res["sym_transitions"] = ex.nblocks
    res["native_vectors"] = int((res.get("translation_validation") or {}).get("validated", 0))
    # ---- 1. panic freedom (every MIR assert / unwrap / unreachable / unwinding cut)
    allowed = o.get("panic_allowed")  # None | callable(args) -> Bool term: panics are in scope only when this is false
    pan = []
    for ob in ex.obligations:
        c = tm.and_(*ob["pc"])
        if allowed is not None:
            c = tm.and_(c, tm.not_(allowed(args)))
        if not (c.is_const and not c.val):
            pan.append((ob, c))
    res["panic_sites"] = len(ex.obligations)
    verdict = "holds"
    detail = ""
    model = None
    if pan and not o.get("ignore_panics", False):
        q = solve.check(pre + [tm.or_(*[c for _, c in pan])], timeout)
        res["solver_queries"] += 1
        res["solver_s"] += q["z3_s"] + q["cvc5_s"]
        if q["verdict"] == "sat":
            model = q["model"]
            which = [ob for ob, c in pan if _eval(c, model) is True]
            kinds = {ob["kind"] for ob in which}
            if kinds == {"unwind"}:
                verdict, detail = "inconclusive", "loop bound too small: " + which[0]["msg"]
            else:
                verdict = "violated"
                detail = "panic reachable: " + "; ".join(sorted({ob["msg"][:80] + " in " + ob["fn"] for ob in which if ob["kind"] != "unwind"}))[:300]
        elif q["verdict"] != "unsat":
            verdict, detail = "inconclusive", "panic query: " + q.get("detail", "")
        if q.get("single_solver"):
            res["single_solver"] = q["single_solver"]
    # ---- 2. functional post-condition on every path
    if verdict == "holds" and o.get("post"):
        viol = []
        for (s, ret) in paths:
            ok = o["post"](args, ret, s) if o.get("post_state") else o["post"](args, ret)
            c = tm.and_(*(s.pc + [tm.not_(ok)]))
            if not (c.is_const and not c.val):
                viol.append(c)
        if viol:
            q = solve.check(pre + [tm.or_(*viol)], timeout)
            res["solver_queries"] += 1
            res["solver_s"] += q["z3_s"] + q["cvc5_s"]
            if q["verdict"] == "sat":
                verdict, model = "violated", q["model"]
                detail = "result differs from the reference for the model in `counterexample`"
            elif q["verdict"] != "unsat":
                verdict, detail = "inconclusive", "post query: " + q.get("detail", "")
            if q.get("single_solver"):
                res["single_solver"] = q["single_solver"]
    # ---- 3. vacuity witnesses: precondition + a returning path + each witness predicate satisfiable
    wit = [("some path returns under the precondition", lambda a: tm.TRUE)] + list(o.get("witnesses", []))
    res["witnesses_total"] = len(wit)
    wsamples = []
    if verdict == "holds":
        reach = tm.or_(*[tm.and_(*s.pc) for s, _ in paths]) if paths else tm.FALSE
        for (wname, wf) in wit:
            q = solve.check(pre + [reach, wf(args)], min(timeout, 60))
            res["solver_queries"] += 1
            res["solver_s"] += q["z3_s"] + q["cvc5_s"]
            if q["verdict"] == "sat":
                res["witnesses_satisfied"] += 1
                res.setdefault("witness_names", []).append(wname)
                wsamples.append({"witness": wname, "model": {k: v for k, v in (q["model"] or {}).items() if "!" not in k}})
            elif q["verdict"] == "unsat":
                if bind:
                    continue  # under a sweep a witness only has to be satisfiable for some value
                verdict, detail = "vacuous", "witness unsatisfiable: " + wname
                break
            else:
                verdict, detail = "inconclusive", "witness query: " + wname
                break
    res["verdict"] = verdict
    res["detail"] = detail
    res["seconds"] = time.time() - t0
    res["sample"] = {"obligation": o["name"], "engine": "mir2smt", "bound": o.get("bound", ""),
                     "mir_functions_executed": [h.split("{")[0].strip()[:90] for h in ex.called][:8],
                     "paths": len(paths), "panic_sites_checked": len(ex.obligations), "witness_models": wsamples[:3]}
    if verdict == "violated" and o.get("realise") and not (bind and bind.get("__realising")):
        # The query used summaries (uninterpreted functions): the model's values for them need not be the real
        # functions'. Bind the operands the summaries depend on to the model's values (the summaries then fold
        # to the real functions' values) and decide the remaining, smaller problem again.
        attempts = o["realise"] if isinstance(o["realise"][0], (list, tuple)) else [o["realise"]]
        tried = []
        for prefixes in attempts:
            keep = {k: v for k, v in (model or {}).items() if "!" not in k and any(k.startswith(p) for p in prefixes) and not isinstance(v, bool)}
            b2 = dict(bind or {})
            b2.update(keep)
            b2["__realising"] = 1
            o2 = dict(o)
            o2["_validated"] = True
            r2 = run_obligation_one(prop, o2, tier, b2)
            for k in ("solver_queries", "solver_s"):
                res[k] = r2[k] = r2.get(k, 0) + res.get(k, 0)
            r2["obligation"] = o
            tried.append(f"{len(keep)} operands bound -> {r2['verdict']} {r2.get('detail', '')[:80]}")
            if r2["verdict"] == "violated":
                r2["detail"] = "[abstract counterexample realised with the real summarised functions] " + r2.get("detail", "")
                r2["seconds"] = time.time() - t0
                return r2
        res["abstract_counterexample"] = {k: v for k, v in (model or {}).items() if "!" not in k}
        res["verdict"] = "inconclusive"
        res["detail"] = ("counterexample found with summarised (uninterpreted) badness could not be realised with the real function at the model's operands "
                         "(" + "; ".join(tried) + "); no verdict")
        return res
    if verdict == "violated":
        cex = {k: v for k, v in (model or {}).items() if "!" not in k}
        cex.update({k: v for k, v in (bind or {}).items() if not k.startswith("__")})
        res["counterexample"] = cex
        res.update(replay_violation(prop, o, cex, detail))
    return res


def replay_violation(prop, o, cex, detail):
    """Replay the model against the natively compiled function (harness/native runner) when the
    obligation names one; otherwise against the concrete MIR interpretation only (stated)."""
    rdir = os.path.join(HERE, "replays", prop["id"])
    os.makedirs(rdir, exist_ok=True)
    rpath = os.path.join(rdir, o["name"] + ".json")
    rec = {"property": prop["id"], "obligation": o["name"], "function": list(o["fn"]), "inputs": cex, "solver_detail": detail}
    nat = o.get("native")
    # 1. concrete MIR interpretation of the model + concrete evaluation of the post-condition
    try:
        prog = program(o["crates"])
        fn = find_target(prog, o["fn"])
        full = dict(cex)
        sym0 = Sym(prog)
        if o.get("build_args"):
            o["build_args"](sym0, {})
        else:
            for (an, aty) in o["args"]:
                sym0.make(aty, an)
        for name in sym0.vars:
            full.setdefault(name, 0)
        for k, v in (nat or {}).get("defaults", {}).items():
            full.setdefault(k, v)
        mine = interpret(prog, o, fn, full)
        rec["mir_interpretation"] = mine
        rec["inputs"] = full
        if o.get("post") and o.get("build_args") and not o.get("env_models_nondet"):
            # the post-condition evaluated on the concrete run (summaries fold to the real functions' values)
            symc = Sym(prog, consts=full)
            cargs, cvals = o["build_args"](symc, {})
            exc = Executor(prog, unroll=o.get("unroll", 8) + 64, models=_extra_models(o, cargs) + _models.MODELS)
            exc.const_env = o.get("const_generics", {})
            cpaths = exc.run(fn, cvals, State())
            if len(cpaths) == 1:
                cs, cret = cpaths[0]
                ok = o["post"](cargs, cret, cs) if o.get("post_state") else o["post"](cargs, cret)
                if o.get("pre"):
                    pr = o["pre"](cargs)
                    if pr.is_const and not pr.val:
                        rec["concrete_pre"] = False
                        json.dump(rec, open(rpath, "w"), indent=1)
                        return {"verdict": "inconclusive", "replay": rpath, "detail": "the model does not satisfy the precondition when evaluated concretely (artefact of a summary)"}
                if ok.is_const:
                    rec["concrete_post_holds"] = bool(ok.val)
                    if ok.val:
                        json.dump(rec, open(rpath, "w"), indent=1)
                        return {"verdict": "inconclusive", "replay": rpath, "detail": "the model does not violate the post-condition when evaluated concretely (artefact of a summary)"}
    except Exception as e:  # noqa
        rec["mir_interpretation_error"] = str(e)[:300]
        json.dump(rec, open(rpath, "w"), indent=1)
        return {"verdict": "inconclusive", "replay": rpath, "detail": "could not interpret the model concretely: " + str(e)[:200]}
    # 2. the natively compiled function must return exactly what the encoding says it returns
    if nat:
        from . import native
        try:
            got = native.call(nat["fn"], [full.get(a, 0) for a in nat["args"]])
            rec["native_result"] = got
            if got != mine:
                json.dump(rec, open(rpath, "w"), indent=1)
                return {"verdict": "inconclusive", "replay": rpath,
                        "detail": f"model does not reproduce natively (native={got}, encoding={mine}): encoding error"}
        except Exception as e:  # noqa
            rec["native_error"] = str(e)[:300]
            json.dump(rec, open(rpath, "w"), indent=1)
            return {"verdict": "inconclusive", "replay": rpath, "detail": "native replay failed: " + str(e)[:200]}
    else:
        rec["note"] = "no native entry point registered for this (private) function; the model was validated by concrete MIR interpretation only"
    json.dump(rec, open(rpath, "w"), indent=1)
    return {"replay": rpath}


def _safe_run(prop, o, tier):
    """An internal error of the engine is never a verdict: report it as inconclusive."""
    try:
        return run_obligation(prop, o, tier)
    except Exception as e:  # noqa
        import traceback
        return {"obligation": o, "verdict": "engine_error", "seconds": 0.0, "solver_queries": 0,
                "detail": "internal error of the MIR engine (no verdict): " + repr(e)[:200] + " @ " + traceback.format_exc().strip().split("\n")[-3].strip()[:120]}


def _worker(args):
    pid, name, tier = args
    import sys
    sys.path.insert(0, HERE)
    from vlib import registry
    prop = registry.load(pid)
    o = [x for x in prop["obligations"] if x["name"] == name][0]
    r = _safe_run(prop, o, tier)
    r.pop("obligation", None)
    return name, r


def run(prop, obligations, tier, seed):
    """Obligations are independent: run them in a process pool (each process dumps/loads MIR once per crate set;
    the MIR dump itself is done once up front so the workers only parse)."""
    import multiprocessing as mp
    # dump MIR once (serially; cargo locks its target dir)
    for crates in sorted({tuple(o["crates"]) for o in obligations}):
        for c in crates:
            dump_mir(c)
    from . import native
    if any(o.get("native") for o in obligations):
        native.build()
    os.environ["VERIF_MIR_NO_DUMP"] = "1"
    n = min(len(obligations), int(os.environ.get("VERIF_MAX_JOBS", "12")))
    by_name = {o["name"]: o for o in obligations}
    out = []
    if n <= 1:
        for o in obligations:
            out.append(_safe_run(prop, o, tier))
        return out
    with mp.Pool(n) as pool:
        for name, r in pool.imap_unordered(_worker, [(prop["id"], o["name"], tier) for o in obligations]):
            r["obligation"] = by_name[name]
            out.append(r)
    order = {o["name"]: i for i, o in enumerate(obligations)}
    out.sort(key=lambda r: order[r["obligation"]["name"]])
    return out


def replay_file(prop, path):
    """./check <ID> --replay <file.json>: re-run a stored model against the current tree (native build and
    concrete MIR interpretation) and evaluate the reference on it. exit 1 if it still violates."""
    rec = json.load(open(path))
    o = [x for x in prop["obligations"] if x["name"] == rec["obligation"]][0]
    prog = program(o["crates"])
    fn = find_target(prog, o["fn"])
    consts = rec["inputs"]
    sym = Sym(prog, consts)
    args = {}
    argvals = []
    if o.get("build_args"):
        args, argvals = o["build_args"](sym, {})
    else:
        for (an, aty) in o["args"]:
            v = sym.make(aty, an)
            args[an] = v
            argvals.append(v)
    args["__consts__"] = consts
    ex = Executor(prog, unroll=o.get("unroll", 8) + 64, models=_extra_models(o, args) + _models.MODELS)
    ex.const_env = o.get("const_generics", {})
    paths = ex.run(fn, argvals, State())
    panicked = any((lambda c: c.is_const and c.val)(tm.and_(*ob["pc"])) for ob in ex.obligations)
    if not panicked and len(paths) > 1 and o.get("env_models"):
        nbad = 0
        for (s, ret) in paths:
            ok = o["post"](args, ret, s) if o.get("post_state") else o["post"](args, ret)
            if not (ok.is_const and ok.val):
                nbad += 1
        print(f"replay {path}: {len(paths)} stub outcomes, {nbad} violate the post-condition")
        if nbad:
            print(f"VIOLATION property={prop['id']} replay={path}")
            return 1
        return 0
    mine = "panic" if panicked else flatten(paths[0][1])
    nat = o.get("native")
    got = None
    if nat:
        from . import native
        got = native.call(nat["fn"], [consts.get(a, 0) for a in nat["args"]])
        if got != mine:
            print(f"replay {path}: native={got} encoding={mine}: encoding error")
            return 2
    bad = panicked
    if not panicked and o.get("post"):
        ok = o["post"](args, paths[0][1], paths[0][0]) if o.get("post_state") else o["post"](args, paths[0][1])
        bad = not (ok.is_const and ok.val)
    print(f"replay {path}: result={mine} native={got} violates={'yes' if bad else 'no'}")
    if bad:
        print(f"VIOLATION property={prop['id']} replay={path}")
        return 1
    return 0
