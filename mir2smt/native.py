"""Native calls into /repo's kernels (harness/src/bin/native.rs), dev profile (overflow checks on,
like the MIR dump) — used to validate the translator and to replay solver models."""
import os
import subprocess

HERE = os.path.dirname(os.path.dirname(os.path.abspath(__file__)))
HARNESS = os.path.join(HERE, "harness")
TARGET = os.path.join(HERE, ".cache", "target_native")
_BUILT = {}


def build(features=("p_common", "p_tfm", "p_knuthplass")):
    key = tuple(features)
    if key in _BUILT:
        return _BUILT[key]
    env = dict(os.environ)
    env["CARGO_NET_OFFLINE"] = "true"
    env.pop("RUSTUP_TOOLCHAIN", None)
    import shutil
    shutil.copyfile("/repo/Cargo.lock", os.path.join(HARNESS, "Cargo.lock"))
    cmd = ["cargo", "build", "--offline", "--bin", "native", "--features", ",".join(features), "--target-dir", TARGET]
    p = subprocess.run(cmd, cwd=HARNESS, env=env, stdout=subprocess.PIPE, stderr=subprocess.STDOUT)
    if p.returncode != 0:
        raise RuntimeError("native runner build failed: " + p.stdout.decode(errors="replace")[-600:])
    exe = os.path.join(TARGET, "debug", "native")
    _BUILT[key] = exe
    return exe


def call_many(calls):
    """calls: [(name, [ints])] -> [list[int] | 'panic' | 'unknown']"""
    exe = build()
    inp = "\n".join(name + " " + " ".join(str(int(a)) for a in args) for name, args in calls) + "\n"
    p = subprocess.run([exe], input=inp.encode(), stdout=subprocess.PIPE, stderr=subprocess.PIPE)
    out = []
    for line in p.stdout.decode().strip().split("\n"):
        line = line.strip()
        if line in ("panic", "unknown"):
            out.append(line)
        else:
            out.append([int(x) for x in line.split()])
    if len(out) != len(calls):
        raise RuntimeError(f"native runner returned {len(out)} results for {len(calls)} calls: {p.stderr.decode()[-300:]}")
    return out


def call(name, args):
    return call_many([(name, args)])[0]
