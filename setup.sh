#!/bin/sh
# Run once after a fresh restore (offline). Creates cache dirs; everything else is rebuilt by each
# check from /repo's current working tree.
set -e
cd "$(dirname "$0")"
mkdir -p .cache evidence replays
chmod +x check
cp /repo/Cargo.lock harness/Cargo.lock
exit 0
