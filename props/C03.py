"""C03 — lexing follows TeX's scanner. Decided at driver level for the state machine of Lexer::next and
read_control_sequence (TeX.2021.343-356): the character source (RawLexer: line splitting, trimming, ^^ notation,
trace keys) and the control-sequence interner are stubs."""
from mir2smt import term as tm
from mir2smt.term import I
from mir2smt.execmir import Agg, Enum, Ref, Cell, Opaque, Unsupported
from mir2smt import models_iter  # noqa: F401
from mir2smt.models import model

ESCAPE, BEGIN, END, MATH, TAB, EOL, PARAM, SUP, SUB, IGNORED, SPACE, LETTER, OTHER, ACTIVE, COMMENT, INVALID = range(16)
NEWLINE, MIDLINE, SKIPBLANKS = 0, 1, 2
# token::Value discriminants
V = dict(BeginGroup=0, EndGroup=1, MathShift=2, AlignmentTab=3, Parameter=4, Superscript=5, Subscript=6, Space=7, Letter=8, Other=9, CommandRef=10)
PLAIN = {BEGIN: "BeginGroup", END: "EndGroup", MATH: "MathShift", TAB: "AlignmentTab", PARAM: "Parameter", SUP: "Superscript", SUB: "Subscript", LETTER: "Letter", OTHER: "Other"}


# String as a list of chars (the control-sequence buffer)
@model(r"^String::clear$")
def m_string_clear(ex, m, args, tys, st, fn):
    ex.write_ref(args[0], Agg([]))
    return [(st, Agg([]))]


@model(r"^String::push$")
def m_string_push(ex, m, args, tys, st, fn):
    v = ex.deref(args[0])
    ex.write_ref(args[0], Agg(list(v.fields) + [args[1]]))
    return [(st, Agg([]))]


@model(r"^<String as (?:std::ops::)?Deref>::deref$")
def m_string_deref(ex, m, args, tys, st, fn):
    return [(st, args[0])]


def position(st):
    """(line, index, line ended) of the stubbed character source on this path."""
    line, idx = 0, 0
    for e in st.log:
        if e[0] in ("raw_next", "advance"):
            idx += 1
        elif e[0] == "end_line":
            idx = 10 ** 6
        elif e[0] == "new_line":
            line, idx = line + 1, 0
        elif e[0] == "caret" and e[1]:
            idx += e[2]      # a ^^ reduction: the second ^ (and the first, if it had only been peeked) is consumed
    return line, idx


def obligation(line_lens, report_eol, tier="quick", carets=False):
    n_lines = len(line_lens)

    def build(sym, bind):
        def var(name, lo, hi, ty="i32"):
            if sym.consts is not None:
                return I(sym.consts.get(name, lo))
            v = tm.V(name)
            sym.assumes.append(tm.and_(tm.le(I(lo), v), tm.le(v, I(hi))))
            sym.vars[name] = ty
            return v
        cats = [[var(f"cat{l}_{i}", 0, 15) for i in range(n)] for l, n in enumerate(line_lens)]
        chars = [[var(f"char{l}_{i}", 0, 0x10FFFF) for i in range(n)] for l, n in enumerate(line_lens)]
        state = var("state", 0, 2)
        fls = tm.V("first_line_started", "B") if sym.consts is None else tm.B(bool(sym.consts.get("first_line_started", 0)))
        if sym.consts is None:
            sym.vars["first_line_started"] = "bool"
        lexer = Agg([Opaque("raw lexer"), Enum(state, {}, "State"), fls, Agg([])])
        a = dict(cats=cats, chars=chars, state=state, fls=fls, consts=sym.consts)
        return a, [Ref(Cell(lexer)), Ref(Cell(Opaque("config"))), Ref(Cell(Opaque("interner"))), tm.B(bool(report_eol))]

    def concrete_cat(ex, st, symargs, line, idx):
        """The category code of raw character (line, idx) on this path: decided once, by forking 16 ways."""
        for e in st.log:
            if e[0] == "cat" and e[1] == line and e[2] == idx:
                return [(st, e[3])]
        c = symargs["cats"][line][idx]
        if c.is_const:
            st.log.append(("cat", line, idx, int(c.val)))
            return [(st, int(c.val))]
        out = []
        for k in range(16):
            s2 = st.fork() if k < 15 else st
            s2.assume(tm.eq(c, I(k)))
            s2.log.append(("cat", line, idx, k))
            out.append((s2, k))
        return out

    def raw_token(symargs, line, idx, k):
        return Agg([Enum(I(k), {}, "CatCode"), symargs["chars"][line][idx], Agg([I(1000 * line + idx)])])

    def env_raw_next(ex, m, args, tys, st, fn, symargs):
        line, idx = position(st)
        if line >= n_lines or idx >= line_lens[line]:
            st.log.append(("raw_none",))
            return [(st, Enum(0, {}, "Option"))]
        out = []
        for s2, k in concrete_cat(ex, st, symargs, line, idx):
            s2.log.append(("raw_next", line, idx))
            out.append((s2, Enum(1, {1: [raw_token(symargs, line, idx, k)]}, "Option")))
        return out

    def env_raw_peek(ex, m, args, tys, st, fn, symargs):
        line, idx = position(st)
        if line >= n_lines or idx >= line_lens[line]:
            return [(st, Enum(0, {}, "Option"))]
        return [(s2, Enum(1, {1: [raw_token(symargs, line, idx, k)]}, "Option")) for s2, k in concrete_cat(ex, st, symargs, line, idx)]

    def env_advance(ex, m, args, tys, st, fn, symargs):
        st.log.append(("advance",))
        return [(st, Agg([]))]

    def env_end_line(ex, m, args, tys, st, fn, symargs):
        st.log.append(("end_line",))
        return [(st, Agg([]))]

    def env_start_new_line(ex, m, args, tys, st, fn, symargs):
        line, _ = position(st)
        if line + 1 < n_lines:
            st.log.append(("new_line",))
            return [(st, tm.TRUE)]
        st.log.append(("no_more_lines",))
        return [(st, tm.FALSE)]

    def env_caret(ex, m, args, tys, st, fn, symargs):
        """maybe_apply_caret_notation(char_1, char_1_consumed): contract of the character source - it may answer true only if
        two more characters follow the first ^ on the line; it then consumes the second ^ (and the first one if it had only
        been peeked) and leaves the reduced character as the next one (with whatever category code that character has)."""
        consumed = args[2]
        if not consumed.is_const:
            raise Unsupported("symbolic char_1_consumed")
        line, idx = position(st)
        adv = 1 if consumed.val else 2
        room = line < n_lines and idx + adv < line_lens[line]
        k = sum(1 for e in st.log if e[0] == "caret")
        if not room or not carets:
            st.log.append(("caret", False, 0))
            return [(st, tm.FALSE)]
        c = symargs.get("consts")
        if c is not None:
            ans = bool(c.get(f"caret{k}", 0))
            st.log.append(("caret", ans, adv if ans else 0))
            return [(st, tm.B(ans))]
        v = tm.V(f"caret{k}", "B")
        s2 = st.fork()
        st.assume(v)
        st.log.append(("caret", True, adv))
        s2.assume(tm.not_(v))
        s2.log.append(("caret", False, 0))
        return [(st, tm.TRUE), (s2, tm.FALSE)]

    def env_intern(ex, m, args, tys, st, fn, symargs):
        s = args[1]
        name = s.what if isinstance(s, Opaque) else tuple(ex.deref(s).fields)
        k = sum(1 for e in st.log if e[0] == "intern")
        st.log.append(("intern", name))
        return [(st, Agg([Agg([I(5000 + k)])]))]

    # ---- the reference: TeX.2021.343-356 on concrete category codes
    def reference(cat, state, fls, answers):
        """cat(line, idx) -> int; answers: the character source's answers to 'is this ^ the start of a ^^ reduction?' in order.
        Returns (result, payload, new state or None if irrelevant, (line, idx), first_line_started)."""
        line, idx = 0, 0
        ended = False

        def reduces(adv):
            """TeX.2021.352/355: a superscript character may start a ^^ reduction; the source says whether it does."""
            nonlocal idx
            if not answers:
                raise KeyError("caret")
            ans, a_ = answers.pop(0)
            if ans:
                idx += a_
            return ans

        def at_end():
            return ended or line >= n_lines or idx >= line_lens[line]
        while True:
            if at_end():
                state = NEWLINE
                if line + 1 >= n_lines:
                    return ("EndOfInput", None, state, (line, idx), fls)
                line, idx, ended = line + 1, 0, False
                if report_eol:
                    if fls:
                        return ("EndOfLine", None, state, (line, idx), fls)
                    fls = True
                continue
            c = cat(line, idx)
            here = (line, idx)
            idx += 1
            if c == ESCAPE:
                while True:
                    if at_end():
                        return ("Token", ("cs", ()), None, (line, idx), fls)     # the empty control sequence; state irrelevant
                    c1 = cat(line, idx)
                    name = [(line, idx)]
                    idx += 1
                    if c1 == SUP and reduces(1):
                        continue                 # the reduced character starts the name (TeX.2021.355)
                    break
                if c1 == LETTER:
                    while not at_end():
                        c2 = cat(line, idx)
                        if c2 == LETTER:
                            name.append((line, idx))
                            idx += 1
                        elif c2 == SUP and reduces(2):
                            continue             # ^^ notation inside a name (TeX.2021.356)
                        else:
                            break
                    return ("Token", ("cs", tuple(name)), SKIPBLANKS, (line, idx), fls)
                return ("Token", ("cs", tuple(name)), SKIPBLANKS if c1 == SPACE else MIDLINE, (line, idx), fls)
            if c == EOL:
                ended, idx = True, 10 ** 6
                if state == NEWLINE:
                    return ("Token", ("par", here), NEWLINE, (line, 10 ** 6), fls)
                if state == MIDLINE:
                    return ("Token", ("space", here), NEWLINE, (line, 10 ** 6), fls)
                continue
            if c == SPACE:
                if state == MIDLINE:
                    return ("Token", ("space", here), SKIPBLANKS, (line, idx), fls)
                continue
            if c == COMMENT:
                ended, idx = True, 10 ** 6
                continue
            if c == IGNORED:
                continue
            if c == INVALID:
                return ("Invalid", here, state, (line, idx), fls)
            if c == ACTIVE:
                return ("Token", ("active", here), MIDLINE, (line, idx), fls)
            if c == SUP and reduces(1):
                continue                         # TeX.2021.352: reduce and scan again
            return ("Token", (PLAIN[c], here), MIDLINE, (line, idx), fls)

    def post(a, ret, st):
        cats = {(e[1], e[2]): e[3] for e in st.log if e[0] == "cat"}
        lexer = st.roots[0]
        while isinstance(lexer, Ref):
            lexer = lexer.cell.v
        got_state, got_fls = lexer.fields[1].tag, lexer.fields[2]
        pos = position(st)
        disj = []
        for s0 in (NEWLINE, MIDLINE, SKIPBLANKS):
            for f0 in (False, True):
                missing = []

                def cat(l, i):
                    if (l, i) not in cats:
                        missing.append((l, i))
                        return OTHER
                    return cats[(l, i)]
                answers = [(e[1], e[2]) for e in st.log if e[0] == "caret"]
                try:
                    res, pay, s1, p1, f1 = reference(cat, s0, f0, answers)
                except KeyError:
                    continue  # the reference asks the source about a ^ the implementation never asked about
                if answers:
                    continue  # the implementation asked about a ^ that TeX's scanner would not have looked at
                if missing:
                    continue  # the reference needs a character the implementation never looked at on this path
                cond = [tm.eq(a["state"], I(s0)), a["fls"] if f0 else tm.not_(a["fls"])]
                ok = True
                # position of the character source (a finished line is equivalent to any index past its end)
                def norm(p):
                    l, i = p
                    return (l, min(i, line_lens[l]) if l < n_lines else 0)
                ok = ok and norm(pos) == norm(p1)
                if s1 is not None:
                    cond.append(tm.eq(got_state, I(s1)))
                cond.append(got_fls if f1 else tm.not_(got_fls))
                tag = ret.tag.val  # lexer::Result: Token 0, InvalidCharacter 1, EndOfLine 2, EndOfInput 3
                if res == "EndOfInput":
                    ok = ok and tag == 3
                elif res == "EndOfLine":
                    ok = ok and tag == 2
                elif res == "Invalid":
                    ok = ok and tag == 1
                    if ok:
                        cond.append(tm.eq(ret.pay[1][0], a["chars"][pay[0]][pay[1]]))
                else:
                    ok = ok and tag == 0
                    if ok:
                        tok = ret.pay[0][0]
                        val = tok.fields[0]
                        kind = pay[0]
                        interns = [e[1] for e in st.log if e[0] == "intern"]
                        if kind == "cs":
                            want = tuple(a["chars"][l][i] for (l, i) in pay[1])
                            ok = ok and val.tag.val == V["CommandRef"] and len(interns) == 1
                            if ok and not want:
                                ok = (isinstance(interns[0], str) and '""' in interns[0]) or interns[0] == ()   # the empty control sequence
                            elif ok:
                                ok = isinstance(interns[0], tuple) and len(interns[0]) == len(want)
                            if ok and want:
                                cond += [tm.eq(x, y) for x, y in zip(interns[0], want)]
                                cr = val.pay[V["CommandRef"]][0]
                                ok = ok and cr.tag.val == 0
                        elif kind == "par":
                            ok = ok and val.tag.val == V["CommandRef"] and len(interns) == 1 and isinstance(interns[0], str) and '"par"' in interns[0]
                        elif kind == "space":
                            ok = ok and val.tag.val == V["Space"]
                            if ok:
                                cond.append(tm.eq(val.pay[V["Space"]][0], I(32)))
                        elif kind == "active":
                            ok = ok and val.tag.val == V["CommandRef"] and val.pay[V["CommandRef"]][0].tag.val == 1
                            if ok:
                                cond.append(tm.eq(val.pay[V["CommandRef"]][0].pay[1][0], a["chars"][pay[1][0]][pay[1][1]]))
                        else:
                            ok = ok and val.tag.val == V[kind]
                            if ok:
                                cond.append(tm.eq(val.pay[V[kind]][0], a["chars"][pay[1][0]][pay[1][1]]))
                        if ok and kind != "cs":
                            # the trace key is the one of the character the token started at
                            cond.append(tm.eq(tok.fields[1].fields[0], I(1000 * pay[1][0] + pay[1][1])))
                        if ok and kind == "cs":
                            pass
                if ok:
                    disj.append(tm.and_(*cond))
        return tm.or_(*disj) if disj else tm.FALSE

    name = "c03_lexer_next_lines_" + "_".join(str(n) for n in line_lens) + ("_eol" if report_eol else "") + ("_carets" if carets else "")
    return dict(engine="B", name=name, crates=["texlang"], fn=("texlang", "next", "Lexer", None), args=[], tier=tier, build_args=build, unroll=sum(line_lens) + n_lines + 6,
                max_paths=400000, post=post, post_state=True,
                env_models=[(r"^RawLexer::next::<.*>$", env_raw_next), (r"^RawLexer::peek::<.*>$", env_raw_peek), (r"^RawLexer::advance$", env_advance),
                            (r"^RawLexer::end_line$", env_end_line), (r"^RawLexer::start_new_line::<.*>$", env_start_new_line),
                            (r"^RawLexer::maybe_apply_caret_notation$", env_caret), (r"^Interner::<.*>::get_or_intern$", env_intern)],
                witnesses=[("a control word", lambda a: tm.and_(tm.eq(a["cats"][0][0], I(ESCAPE)), tm.eq(a["cats"][0][1], I(LETTER)))),
                           ("a space in mid-line state", lambda a: tm.and_(tm.eq(a["cats"][0][0], I(SPACE)), tm.eq(a["state"], I(MIDLINE))))]
                          + ([("a ^^ reduction inside a control word", lambda a: tm.and_(tm.eq(a["cats"][0][0], I(ESCAPE)), tm.eq(a["cats"][0][1], I(LETTER)), tm.eq(a["cats"][0][2], I(SUP)), tm.V("caret0", "B")))]
                             if carets and line_lens[0] >= 5 else []) if line_lens[0] >= 2 else [],
                funcs=["texlang::token::lexer::Lexer::next and Lexer::read_control_sequence (generic MIR; RawLexer (character source) and the control-sequence interner replaced by stubs; Token constructors from the dump)"],
                bound=(f"one call of Lexer::next from an arbitrary scanner state (new line / mid line / skip blanks, first_line_started arbitrary, report_end_of_line={bool(report_eol)}) with "
                       f"{list(line_lens)} characters left on the current and following lines, every character and every category code (0..15) arbitrary: the result, the token (kind, character, control-sequence "
                       "name as the characters handed to the interner, trace key of its first character), the new state and the characters consumed are those of TeX.2021.343-356"),
                assumes=["RawLexer is a stub with the contract: next/peek/advance walk the current line, end_line drops its rest, start_new_line moves to the next line if there is one; "
                         "maybe_apply_caret_notation answers false, except in the `_carets` obligations where it may answer true whenever two more characters follow on the line (it then consumes the second ^ - and the first, if only peeked - and leaves the reduced character, of arbitrary category, next)", "the interner is a stub that records the name it is given"])


PROP = {
    "title": "Lexing follows TeX's scanner: the state machine of Lexer::next (driver level)",
    "level_text": ("Decided at driver level: one call of Lexer::next (with read_control_sequence) from an arbitrary scanner state over a stubbed character source, for every category-code and character "
                   "assignment of up to 5 (thorough 7) pending characters on up to 3 lines: which spaces and line ends become space tokens or \\\\par, how control sequences are delimited and which state follows, "
                   "comment / ignored / invalid characters, end of line and end of input reporting (TeX.2021.343-356). One step from an arbitrary state covers token sequences of any length by induction "
                   "over calls. NOT decided: RawLexer (splitting the source into lines, right-trimming, \\\\endlinechar, the arithmetic of a ^^ reduction - only the scanner's reaction to one is), the tracer (line/column reports, key exhaustion), the interner."),
    "explanation": "Lexer::next is executed from its generic MIR against a character-source stub that forks on the category code of each character it hands out; the post-condition is a transcription of TeX's get_next on the same codes.",
    "outside": [
        "RawLexer::start_new_line / end_line / maybe_apply_caret_notation (line splitting, right-trimming of spaces, \\\\endlinechar, ^^ notation also inside names): string-bound, NOT decided",
        "Tracer::register_source_code / trace (line number, column and line text of a token; trace-key exhaustion): NOT decided (the check only pins which character's key a token carries)",
        "more than 5 (thorough 7) pending characters / 3 lines per call (longer control words and longer runs of skipped characters)",
    ],
    "assumptions": ["character source and interner stubbed (contract in the evidence)"],
    "obligations": [obligation(l, e) for l, e in [((2,), False), ((3,), False), ((4,), False), ((5,), False), ((1, 1), False), ((1, 1), True), ((2, 1), False), ((0, 2), True), ((0, 2), False),
                                                   ((1, 0, 1), True), ((2, 2), True), ((3, 1), False), ((1, 2, 1), True), ((3, 2), False), ((0, 0, 2), True)]]
                   + [obligation(l, e, carets=True) for l, e in [((3,), False), ((4,), False), ((5,), False), ((3, 1), True)]]
                   + [obligation(l, e, tier="thorough") for l, e in [((6,), False), ((4, 2), False), ((2, 2, 2), True), ((3, 3), True), ((7,), False)]]
                   + [obligation((6,), False, tier="thorough", carets=True)],
}
