"""C04, pass level: break_line_single_attempt executed from its generic MIR on horizontal lists of a
fixed *shape* (item kinds concrete, every amount symbolic) and compared with the definition of the
property: the pass returns breakpoints iff some sequence of legal breakpoints is feasible, and the
returned sequence has minimal total demerits (TeX.2021.813-878)."""
from mir2smt import term as tm
from mir2smt.term import I
from mir2smt.execmir import Agg, Enum, Ref, Cell, Opaque
from mir2smt import models_iter  # noqa: F401

RULE, GLUE, KERN, PENALTY = 3, 11, 12, 13  # ds::Horizontal discriminants (source order)
NORMAL, FIL = 0, 1
AWFUL_BAD = 0o7777777777


def py_badness(t, s):
    """TeX.2021.108 on Python ints (t >= 0)."""
    if t == 0:
        return 0
    if s <= 0:
        return 10000
    if t <= 7230584:
        r = (t * 297) // s
    elif s >= 1663497:
        r = t // (s // 297)
    else:
        r = t
    if r > 1290:
        return 10000
    return (r * r * r + 0o400000) // 0o1000000


tm.UF_IMPL["bad"] = py_badness


def tex_badness(t, s):
    """badness(t, s) as a *summary*: an uninterpreted function (constant operands fold to TeX.2021.108's value).
    That the real `badness` equals TeX.2021.108 for every operand is obligation c04_badness; here only the
    facts in `bad_lemmas` are used, so the pass is decided for every function with those properties."""
    return tm.uf("bad", t, s)


def bad_lemmas(t, s):
    b = tm.uf("bad", t, s)
    if b.is_const:
        return []
    return [tm.implies(tm.ge(t, I(0)), tm.and_(tm.le(I(0), b), tm.le(b, I(10000)))), tm.implies(tm.eq(t, I(0)), tm.eq(b, I(0)))]


tm.UF_IMPL["mul"] = lambda x, y: x * y


def _bad_partial(t, s):
    """Exact TeX.2021.108 when the divisor is a constant: the quotient is linear in t and the cube is a table."""
    if not s.is_const:
        return None
    sv = s.val
    if sv <= 0:
        return tm.ite(tm.eq(t, I(0)), I(0), I(10000))
    small = tm.ediv(tm.mul(t, I(297)), I(sv))
    large = tm.ediv(t, I(sv // 297)) if sv >= 1663497 else t
    r = tm.ite(tm.le(t, I(7230584)), small, large)
    cube = tm.table(r, 0, 1290, lambda v: (v * v * v + 0o400000) // 0o1000000)
    return tm.ite(tm.le(t, I(0)), I(0), tm.ite(tm.gt(r, I(1290)), I(10000), cube))


def _mul_partial(x, y):
    if x.is_const or y.is_const:
        return tm.mul(x, y)
    if x == y:
        tr = tm.const_tree(x)
        if tr is not None:
            return tm.tree_term(tm.map_tree(tr, lambda v: v * v))
    return None


tm.UF_PARTIAL["bad"] = _bad_partial
tm.UF_PARTIAL["mul"] = _mul_partial


def mul_lemmas(x, y):
    m = tm.uf("mul", x, y)
    if m.is_const:
        return []
    small = lambda v: tm.and_(tm.le(I(-10000), v), tm.le(v, I(10000)))
    out = [tm.implies(tm.and_(small(x), small(y)), tm.and_(tm.le(I(-100000000), m), tm.le(m, I(100000000))))]
    if x == y:
        out.append(tm.ge(m, I(0)))
    return out


def uf_mul(x, y, st):
    """symbolic x symbolic products (squares of line_penalty + badness and of penalties) are summarised too."""
    for l in mul_lemmas(x, y):
        st.pc.append(l)
    return tm.uf("mul", x, y)


def sq(a, x):
    a.setdefault("lemmas", []).extend(mul_lemmas(x, x))
    return tm.uf("mul", x, x)


def env_badness(ex, m, args, tys, st, fn, symargs):
    t, s = args[0].fields[0], args[1].fields[0]
    if t.is_const and s.is_const:
        return NotImplemented  # concrete operands: the real MIR of `badness` runs
    for l in bad_lemmas(t, s):
        st.pc.append(l)
    return [(st, tm.uf("bad", t, s))]


def scaled(x):
    return Agg([x])


def glue_val(w, st, so, sh):
    return Agg([scaled(w), scaled(st), Enum(I(so), {}, "GlueOrder"), scaled(sh), Enum(I(NORMAL), {}, "GlueOrder")])


class Shape:
    """kinds: string over R (rule), G (glue, finite stretch), F (glue, fil stretch), P (penalty), K (explicit kern), k (font kern)."""

    def __init__(self, kinds, rs_order=NORMAL, tex_discards=True, looseness=0):
        self.kinds = kinds
        self.rs_order = rs_order
        self.tex_discards = tex_discards
        self.looseness = looseness

    def legal_breaks(self):
        """TeX.2021.866-868 on the concrete kinds (penalties are assumed finite: |p| < 10000)."""
        ks = self.kinds
        out = []
        for i, c in enumerate(ks):
            if c in "GF" and i > 0 and ks[i - 1] in "Rk":
                out.append(i)
            elif c == "K" and i + 1 < len(ks) and ks[i + 1] in "GF":
                out.append(i)
            elif c == "P":
                out.append(i)
        return out


def build(shape):
    def f(sym, bind):
        def iv(name, lo, hi):
            if sym.consts is not None:
                return I(sym.consts.get(name, 0))
            if name in getattr(sym, "partial", {}):
                sym.vars[name] = "i32"
                return I(sym.partial[name])
            v = tm.V(name)
            sym.assumes.append(tm.and_(tm.le(I(lo), v), tm.le(v, I(hi))))
            sym.vars[name] = "i32"
            return v
        W = 1 << 28
        items, vals = [], []
        for i, c in enumerate(shape.kinds):
            if c == "R":
                w = iv(f"w{i}", 0, W)
                items.append(dict(kind="R", w=w))
                vals.append(Enum(I(RULE), {RULE: [Agg([scaled(I(0)), scaled(w), scaled(I(0))])]}, "Horizontal"))
            elif c in "GF":
                w, st, sh = iv(f"w{i}", 0, W), iv(f"st{i}", 0, W), iv(f"sh{i}", 0, W)
                order = NORMAL if c == "G" else FIL
                items.append(dict(kind="G", w=w, st=st, sh=sh, order=order))
                vals.append(Enum(I(GLUE), {GLUE: [Agg([glue_val(w, st, order, sh), Enum(I(0), {}, "GlueKind")])]}, "Horizontal"))
            elif c in "Kk":
                w = iv(f"w{i}", 0, W)
                items.append(dict(kind=c, w=w))
                vals.append(Enum(I(KERN), {KERN: [Agg([scaled(w), Enum(I(1 if c == "K" else 0), {}, "KernKind")])]}, "Horizontal"))
            elif c == "P":
                p = iv(f"p{i}", -20000, 9999)  # <= -10000: a forced break (TeX.2021.831 clamps it to eject_penalty)
                items.append(dict(kind="P", p=p))
                vals.append(Enum(I(PENALTY), {PENALTY: [Agg([p])]}, "Horizontal"))
            else:
                raise ValueError(c)
        L = iv("line_width", 0, W)
        tol = iv("tolerance", 0, 10000)
        line_penalty = iv("line_penalty", 0, 10000)
        adj = iv("adj_demerits", 0, 1 << 20)
        rs_w, rs_st, rs_sh = iv("rs_w", 0, W), iv("rs_st", 0, W), iv("rs_sh", 0, W)
        ls_w, ls_st, ls_sh = iv("ls_w", 0, W), iv("ls_st", 0, W), iv("ls_sh", 0, W)
        zero_glue = glue_val(I(0), I(0), NORMAL, I(0))
        params = Agg([adj, I(0), I(0), I(0), scaled(I(0)), I(0), I(0), I(0), I(0), I(0), glue_val(ls_w, ls_st, NORMAL, ls_sh), line_penalty, I(shape.looseness), zero_glue, I(0),
                      glue_val(rs_w, rs_st, shape.rs_order, rs_sh), tol])
        lb = Agg([Ref(Cell(params)), Ref(Cell(Agg([scaled(L)]))), Ref(Cell(Agg([]))), Enum(I(0), {}, "Option"), Opaque("hyphenator")])
        lst = Ref(Cell(Agg(vals)))
        args = dict(items=items, L=L, tol=tol, line_penalty=line_penalty, adj=adj, rs=(rs_w, rs_st, rs_sh), ls=(ls_w, ls_st, ls_sh), shape=shape)
        return args, [Ref(Cell(lb)), lst, Ref(Cell(Opaque("font_repo"))), tol, scaled(I(0)), tm.FALSE]
    return f


# ---------------------------------------------------------------- the definition (TeX.2021.813-878) as terms
def line(a, frm, to):
    """Material of the line that starts after the break at index frm (None: paragraph start) and ends at the break at
    index `to` (len: paragraph end). Returns (natural width, finite stretch, has infinite stretch, shrink, penalty)."""
    items, shape = a["items"], a["shape"]
    n = len(items)
    i = 0
    if frm is not None:
        if shape.tex_discards:
            # TeX.2021.837/879: the break item and every discardable item after it vanish
            i = frm
            while i < n and items[i]["kind"] in ("G", "P", "K"):
                i += 1
            if i > to:
                raise ValueError("shape outside this oracle: only discardable items between two breakpoints (TeX's break_width then runs past the next break)")
        else:
            # variant kept for reference: only the break item itself goes (the tree before fix c12 formed lines this way)
            i = frm + 1
    rs_w, rs_st, rs_sh = a["rs"]
    ls_w, ls_st, ls_sh = a["ls"]
    # TeX.2021.827: every line carries \\leftskip and \\rightskip (width, stretch and shrink)
    w, st, sh = tm.add(rs_w, ls_w), tm.add(ls_st, (rs_st if shape.rs_order == NORMAL else I(0))), tm.add(rs_sh, ls_sh)
    inf = [rs_st] if shape.rs_order != NORMAL else []
    for j in range(i, to):
        it = items[j]
        if it["kind"] in ("R", "K", "k"):
            w = tm.add(w, it["w"])
        elif it["kind"] == "G":
            w = tm.add(w, it["w"])
            sh = tm.add(sh, it["sh"])
            if it["order"] == NORMAL:
                st = tm.add(st, it["st"])
            else:
                inf.append(it["st"])
    pen = I(-10000) if to == n else (items[to]["p"] if items[to]["kind"] == "P" else I(0))
    has_inf = tm.or_(*[tm.not_(tm.eq(x, I(0))) for x in inf]) if inf else tm.FALSE
    return w, st, has_inf, sh, pen


def line_quality(a, frm, to):
    """-> (overfull, badness, fitness class 0..3) of the line (TeX.2021.851-853)."""
    w, st, has_inf, sh, pen = line(a, frm, to)
    shortfall = tm.sub(a["L"], w)
    stretching = tm.gt(shortfall, I(0))
    a.setdefault("lemmas", []).extend(bad_lemmas(shortfall, st) + bad_lemmas(tm.neg(shortfall), sh))
    b_st = tm.ite(has_inf, I(0), tex_badness(shortfall, st))
    c_st = tm.ite(tm.le(b_st, I(12)), I(2), tm.ite(tm.le(b_st, I(99)), I(1), I(0)))
    over = tm.and_(tm.not_(stretching), tm.gt(tm.neg(shortfall), sh))
    b_sh = tex_badness(tm.neg(shortfall), sh)
    c_sh = tm.ite(tm.le(b_sh, I(12)), I(2), I(3))
    return over, tm.ite(stretching, b_st, b_sh), tm.ite(stretching, c_st, c_sh), pen


def demerits(a, b, pen, prev_class, this_class):
    """TeX.2021.859 (no discretionaries in these lists)."""
    d = tm.add(a["line_penalty"], b)
    d = tm.ite(tm.ge(tm.abs_(d), I(10000)), I(100000000), sq(a, d))
    d = tm.ite(tm.gt(pen, I(0)), tm.add(d, sq(a, pen)), tm.ite(tm.gt(pen, I(-10000)), tm.sub(d, sq(a, pen)), d))
    return tm.ite(tm.gt(tm.abs_(tm.sub(prev_class, this_class)), I(1)), tm.add(d, a["adj"]), d)


def sequences(a):
    """Every sequence of legal breakpoints (ending at the paragraph end) with its feasibility and total demerits."""
    shape = a["shape"]
    n = len(a["items"])
    lb = shape.legal_breaks()
    out = []
    for mask in range(1 << len(lb)):
        seq = [lb[i] for i in range(len(lb)) if mask >> i & 1] + [n]
        feas, total, prev, cls = tm.TRUE, I(0), None, I(2)
        for q in lb:
            if q not in seq and a["items"][q]["kind"] == "P":
                feas = tm.and_(feas, tm.gt(a["items"][q]["p"], I(-10000)))  # a forced break cannot be passed over
        for to in seq:
            over, b, c, pen = line_quality(a, prev, to)
            feas = tm.and_(feas, tm.not_(over), tm.le(b, a["tol"]))
            total = tm.add(total, demerits(a, b, pen, cls, c))
            prev, cls = to, c
        out.append((seq, feas, total))
    return out


def monotone(a):
    """The restriction stated in the property: 'the line from a to b is overfull' is upward closed in b."""
    shape = a["shape"]
    n = len(a["items"])
    pts = shape.legal_breaks() + [n]
    conj = []
    for frm in [None] + pts[:-1]:
        later = [p for p in pts if frm is None or p > frm]
        for x, y in zip(later, later[1:]):
            conj.append(tm.implies(line_quality(a, frm, x)[0], line_quality(a, frm, y)[0]))
    sequences(a)  # collects the summary lemmas of every line
    lem = list({id(x): x for x in a.get("lemmas", [])}.values())
    return tm.and_(*(conj + lem))


def post_loose(a, ret, st=None):
    """TeX.2021.873-875 for a non-final pass: start from a cheapest feasible sequence, move the line count towards the requested
    looseness as far as a feasible sequence exists without overshooting, break ties by demerits; if the request is not met
    exactly the pass gives up (None). Ties between cheapest sequences are resolved either way."""
    import itertools
    seqs = sequences(a)
    loose = a["shape"].looseness
    if ret.tag.val == 1:
        v = ret.pay[1][0]
        while isinstance(v, Ref):
            v = v.cell.v
        got = [int(x.val) for x in v.fields]
        if not [s_ for s_ in seqs if s_[0] == got]:
            return tm.FALSE
    else:
        got = None
    disj = []
    idx = range(len(seqs))
    for r in range(0, len(seqs) + 1):
        for F in itertools.combinations(idx, r):
            pattern = tm.and_(*[(seqs[i][1] if i in F else tm.not_(seqs[i][1])) for i in idx])
            if not F:
                if got is None:
                    disj.append(pattern)
                continue
            for b in F:
                b_min = tm.and_(*[tm.le(seqs[b][2], seqs[i][2]) for i in F])
                L0 = len(seqs[b][0])
                diffs = {len(seqs[i][0]) - L0 for i in F}
                cand = [d for d in diffs if (0 <= d <= loose if loose > 0 else loose <= d <= 0)]
                actual = max(cand) if loose > 0 else min(cand)
                if actual != loose:
                    if got is None:
                        disj.append(tm.and_(pattern, b_min))
                    continue
                same = [i for i in F if len(seqs[i][0]) == L0 + actual]
                for r_ in same:
                    if got is not None and seqs[r_][0] == got:
                        disj.append(tm.and_(pattern, b_min, *[tm.le(seqs[r_][2], seqs[i][2]) for i in same]))
    return tm.or_(*disj) if disj else tm.FALSE


def post(a, ret, st=None):
    if a["shape"].looseness != 0:
        return post_loose(a, ret, st)
    seqs = sequences(a)
    if ret.tag.val == 0:  # None
        return tm.and_(*[tm.not_(f) for _, f, _ in seqs])
    v = ret.pay[1][0]
    while isinstance(v, Ref):
        v = v.cell.v
    got = [int(x.val) for x in v.fields]
    mine = [s for s in seqs if s[0] == got]
    if not mine:
        return tm.FALSE  # not a sequence of legal breakpoints
    _, feas, total = mine[0]
    return tm.and_(feas, *[tm.implies(f, tm.le(total, t)) for _, f, t in seqs])


def witnesses(shape):
    n = len(shape.kinds)

    def feas_of(a, pred):
        return [f for (seq, f, _) in sequences(a) if pred(seq)]
    w = [("a feasible sequence exists", lambda a: tm.and_(monotone(a), tm.or_(*feas_of(a, lambda s: True)))),
         ("no sequence is feasible", lambda a: tm.and_(monotone(a), *[tm.not_(f) for f in feas_of(a, lambda s: True)]))]
    if shape.legal_breaks():
        w.append(("only a sequence with an interior break is feasible",
                  lambda a: tm.and_(monotone(a), tm.or_(*feas_of(a, lambda s: len(s) > 1)), *[tm.not_(f) for f in feas_of(a, lambda s: len(s) == 1)])))
        w.append(("one line and two lines are both feasible and two lines cost less",
                  lambda a: tm.and_(monotone(a), *[tm.and_(f, tm.not_(tm.le(t1, t))) for (s1, f1, t1) in sequences(a) if len(s1) == 1 for (s, f, t) in sequences(a) if len(s) > 1 for f in [tm.and_(f, f1)]][:1])))
    return w


def native_spec(shape):
    """Argument order of harness/src/bin/native.rs `kp_pass_<KINDS>` + fixed vectors (translator validation:
    the concrete MIR interpretation must return what the natively compiled function returns)."""
    import random
    names = []
    for i, c in enumerate(shape.kinds):
        names += {"R": [f"w{i}"], "G": [f"w{i}", f"st{i}", f"sh{i}"], "F": [f"w{i}", f"st{i}", f"sh{i}"], "K": [f"w{i}"], "k": [f"w{i}"], "P": [f"p{i}"]}[c]
    names += ["line_width", "tolerance", "line_penalty", "adj_demerits", "rs_w", "rs_st", "rs_sh", "rs_order", "looseness", "ls_w", "ls_st", "ls_sh"]
    import zlib
    rnd = random.Random(zlib.crc32(shape.kinds.encode()))  # deterministic across processes (str hashes are salted)
    pt = 65536
    vecs = []
    for _ in range(32):
        v = {}
        for nme in names:
            if nme.startswith("w"):
                v[nme] = rnd.choice([0, 10, 30, 45, 60, 90, 100, 110]) * pt + rnd.choice([0, 0, 1, 12345])
            elif nme.startswith("st"):
                v[nme] = rnd.choice([0, 1, 3, 10, 40]) * pt
            elif nme.startswith("sh"):
                v[nme] = rnd.choice([0, 1, 2, 10]) * pt
            elif nme.startswith("p"):
                v[nme] = rnd.choice([-9999, -200, -50, 0, 50, 200, 9999])
        v.update(line_width=100 * pt, tolerance=rnd.choice([0, 100, 200, 1000, 10000]), line_penalty=rnd.choice([0, 10, 200]), adj_demerits=rnd.choice([0, 10000]),
                 rs_w=rnd.choice([0, 5 * pt]), rs_st=rnd.choice([0, 20 * pt, 60 * pt]), rs_sh=rnd.choice([0, 3 * pt]), rs_order=shape.rs_order, looseness=shape.looseness, ls_w=rnd.choice([0, 0, 2 * pt]), ls_st=rnd.choice([0, 0, 10 * pt]), ls_sh=rnd.choice([0, 0, 2 * pt]))
        vecs.append(v)
    return {"fn": "kp_pass_" + shape.kinds, "args": names, "vectors": vecs, "vectors_only": True, "defaults": {"rs_order": shape.rs_order, "looseness": shape.looseness}}


def obligation(kinds, rs_order=NORMAL, looseness=0, **kw):
    shape = Shape(kinds, rs_order, looseness=looseness)
    n_b = len(shape.legal_breaks())
    name = f"c04_pass_{kinds}" + ("_rsfil" if rs_order == FIL else "") + ("" if looseness == 0 else f"_loose{'p' if looseness > 0 else 'm'}{abs(looseness)}")
    return dict(engine="B", name=name, crates=["boxworks-knuthplass", "common", "boxworks"],
                fn=("boxworks-knuthplass", "break_line_single_attempt", "LineBreaker", None), args=[], build_args=build(shape),
                unroll=len(kinds) + 6, pre=monotone, env_models=[(r"^badness$", env_badness)], uf_mul=uf_mul, prune=True,
                realise=[["w", "st", "sh", "line_width", "rs_", "ls_", "line_penalty", "p"], ["st", "sh", "rs_st", "rs_sh", "ls_st", "ls_sh", "line_penalty", "p"]], post=post, post_state=True, max_paths=kw.get("max_paths", 200000),
                smt_timeout=kw.get("smt_timeout", 300),
                witnesses=witnesses(shape), native=native_spec(shape),
                funcs=["boxworks_knuthplass::LineBreaker::break_line_single_attempt (generic MIR; try_break inlined), Diffs, Scaled64 ops, badness, demerits, num_nodes_for_next_class, ds::Horizontal::precedes_break (all from the dump); Vec/VecDeque/iterators modelled"],
                bound=(f"horizontal list of shape {kinds} (R rule, G finite glue, F fil glue, P penalty, K explicit kern, k font kern): {n_b} interior legal breakpoint(s), "
                       "every width/stretch/shrink in [0, 2^28], penalties in [-20000, 10000) (forced breaks included), one line width, tolerance in [0, 10000], line_penalty in [0, 10000], adj_demerits in [0, 2^20], "
                       f"symbolic left_skip and right_skip, looseness {looseness}, force_solution false, emergency_stretch 0"))
