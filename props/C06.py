"""C06 — integers, dimensions, glue: compute exactly as TeX does (engine B kernels) and print/scan
round trip (engine A)."""
from mir2smt import term as tm
from mir2smt.term import I
from mir2smt.spec import f0, fld, tag, result_is, option_is, in_i32, wrap32, glue_fields, MAX_DIMEN, I32_MIN, I32_MAX

C = ["common"]


def S(name):  # the i32 of a Scaled argument
    return lambda a: f0(a[name])


def legal_dimen(x):
    return tm.le(tm.abs_(x), I(MAX_DIMEN))


# ---------------------------------------------------------------- TeX 105 mult_and_add
def tex_mult_and_add(n, x, y, max_answer):
    """-> (ok, value): TeX.2021.105, over mathematical integers."""
    nn = tm.abs_(n)
    xx = tm.ite(tm.lt(n, I(0)), tm.neg(x), x)
    ok = tm.or_(tm.eq(n, I(0)),
                tm.and_(tm.le(xx, tm.tdiv(tm.sub(I(max_answer), y), nn)),
                        tm.le(tm.neg(xx), tm.tdiv(tm.add(I(max_answer), y), nn))))
    val = tm.ite(tm.eq(n, I(0)), y, tm.add(tm.mul(nn, xx), y))
    return ok, val


def post_nx_plus_y(a, ret):
    x, n, y = f0(a["x"]), a["n"], f0(a["y"])
    ok, val = tex_mult_and_add(n, x, y, MAX_DIMEN)
    return result_is(ret, ok, lambda p: tm.eq(f0(p), val))


# ---------------------------------------------------------------- TeX 107 xn_over_d
def tex_xn_over_d(x, n, d):
    """-> (ok, quotient, remainder) with the sign of x, over mathematical integers (d > 0, n >= 0)."""
    ax = tm.abs_(x)
    q = tm.ediv(tm.mul(ax, n), d)
    r = tm.emod(tm.mul(ax, n), d)
    ok = tm.lt(q, I(1 << 30))
    neg = tm.lt(x, I(0))
    return ok, tm.ite(neg, tm.neg(q), q), tm.ite(neg, tm.neg(r), r)


def post_xn_over_d(a, ret):
    x, n, d = f0(a["x"]), a["n"], a["d"]
    ok, q, r = tex_xn_over_d(x, n, d)
    return result_is(ret, ok, lambda p: tm.and_(tm.eq(f0(fld(p, 0)), q), tm.eq(f0(fld(p, 1)), r)))


# ---------------------------------------------------------------- TeX 458 units
UNITS = [(1, 1), (12, 1), (7227, 100), (7227, 7200), (7227, 254), (7227, 2540), (1238, 1157), (14856, 1157)]  # pt pc in bp cm mm dd cc ; sp = 8


def post_scaled_new(a, ret):
    i, f, u = a["i"], f0(a["f"]), tag(a["u"])
    # sp: value = i, error iff i > max_dimen (TeX 458: "if cur_val>=@'40000 ... " applies after the unit
    # conversion; for sp TeX jumps to attach_sign and reports "Dimension too large" iff >= 2^30)
    exp_ok = tm.FALSE
    exp_val = I(0)
    for k, (num, den) in enumerate(UNITS):
        q = tm.ediv(tm.mul(i, I(num)), I(den))
        rem = tm.emod(tm.mul(i, I(num)), I(den))
        ff = tm.ediv(tm.add(tm.mul(I(num), f), tm.mul(I(65536), rem)), I(den))
        cur = tm.add(q, tm.ediv(ff, I(65536)))
        frac = tm.emod(ff, I(65536))
        ok_k = tm.and_(tm.lt(q, I(1 << 30)), tm.lt(cur, I(1 << 14)))
        val_k = tm.add(tm.mul(cur, I(65536)), frac)
        exp_ok = tm.ite(tm.eq(u, I(k)), ok_k, exp_ok)
        exp_val = tm.ite(tm.eq(u, I(k)), val_k, exp_val)
    exp_ok = tm.ite(tm.eq(u, I(8)), tm.le(i, I(MAX_DIMEN)), exp_ok)
    exp_val = tm.ite(tm.eq(u, I(8)), i, exp_val)
    return result_is(ret, exp_ok, lambda p: tm.eq(f0(p), exp_val))


# ---------------------------------------------------------------- TeX 1239 glue sum, 1240 multiply/divide
def tex_glue_sum_component(q_amt, q_ord, r_amt, r_ord):
    """One of stretch/shrink of `q := q + r` (q = the scanned glue, r = the register), TeX.2021.1239."""
    qo = tm.ite(tm.eq(q_amt, I(0)), I(0), q_ord)
    same = tm.eq(qo, r_ord)
    take_r = tm.and_(tm.lt(qo, r_ord), tm.ne(r_amt, I(0)))
    amt = tm.ite(same, wrap32(tm.add(q_amt, r_amt)), tm.ite(take_r, r_amt, q_amt))
    order = tm.ite(same, qo, tm.ite(take_r, r_ord, qo))
    return amt, order


def glue_eq(g, w, st, sto, sh, sho):
    gw, gst, gsto, gsh, gsho = glue_fields(g)
    return tm.and_(tm.eq(gw, w), tm.eq(gst, st), tm.eq(gsto, sto), tm.eq(gsh, sh), tm.eq(gsho, sho))


def post_glue_wrapping_add(a, ret):
    rw, rst, rsto, rsh, rsho = glue_fields(a["lhs"])  # register
    qw, qst, qsto, qsh, qsho = glue_fields(a["rhs"])  # scanned value
    st, sto = tex_glue_sum_component(qst, qsto, rst, rsto)
    sh, sho = tex_glue_sum_component(qsh, qsho, rsh, rsho)
    return glue_eq(ret, wrap32(tm.add(qw, rw)), st, sto, sh, sho)


def post_glue_checked_add(a, ret):
    rw, rst, rsto, rsh, rsho = glue_fields(a["lhs"])
    qw, qst, qsto, qsh, qsho = glue_fields(a["rhs"])
    st, sto = tex_glue_sum_component(qst, qsto, rst, rsto)
    sh, sho = tex_glue_sum_component(qsh, qsho, rsh, rsho)

    def summed(q_amt, q_ord, r_amt, r_ord):  # the component is a real sum (same effective order)
        return tm.eq(tm.ite(tm.eq(q_amt, I(0)), I(0), q_ord), r_ord)
    ok = tm.and_(in_i32(tm.add(qw, rw)),
                 tm.implies(summed(qst, qsto, rst, rsto), in_i32(tm.add(qst, rst))),
                 tm.implies(summed(qsh, qsho, rsh, rsho), in_i32(tm.add(qsh, rsh))))
    return option_is(ret, ok, lambda p: glue_eq(p, tm.add(qw, rw), st, sto, sh, sho))


def post_glue_checked_mul(a, ret):
    w, st, sto, sh, sho = glue_fields(a["g"])
    n = a["n"]
    ok1, v1 = tex_mult_and_add(n, w, I(0), MAX_DIMEN)
    ok2, v2 = tex_mult_and_add(n, st, I(0), MAX_DIMEN)
    ok3, v3 = tex_mult_and_add(n, sh, I(0), MAX_DIMEN)
    return option_is(ret, tm.and_(ok1, ok2, ok3), lambda p: glue_eq(p, v1, v2, sto, v3, sho))


def tex_x_over_n(x, n):
    """TeX.2021.106 (n != 0): truncation toward zero."""
    return tm.tdiv(x, n)


def post_glue_checked_div(a, ret):
    w, st, sto, sh, sho = glue_fields(a["g"])
    n = a["n"]
    ok = tm.ne(n, I(0))
    return option_is(ret, ok, lambda p: glue_eq(p, tex_x_over_n(w, n), tex_x_over_n(st, n), sto, tex_x_over_n(sh, n), sho))


def legal_glue(g):
    w, st, _, sh, _ = glue_fields(g)
    return tm.and_(legal_dimen(w), legal_dimen(st), legal_dimen(sh))


def B(name, fn, args, post, pre=None, witnesses=(), native=None, bound="every operand of the argument types within the stated precondition", **kw):
    funcs = ["common::" + (fn[2] + "::" if fn[2] else "") + fn[1] + " (MIR, with every callee in the crate inlined)"]
    return dict(engine="B", name=name, crates=C, fn=("common",) + fn[1:] if len(fn) == 4 else fn, args=args, post=post, pre=pre,
                witnesses=list(witnesses), native=native, funcs=funcs, bound=bound, **kw)


def add_lsd(radix):
    return dict(engine="B", name=f"c06_add_lsd_radix{radix}", crates=["texlang"], fn=("texlang", "add_lsd", None, None),
                args=[("n", "i32"), ("lsd", "i32")], const_generics={"RADIX": radix},
                pre=lambda a: tm.and_(tm.le(I(0), a["n"]), tm.le(I(0), a["lsd"]), tm.lt(a["lsd"], I(radix))),
                post=lambda a, ret: option_is(ret, tm.le(tm.add(tm.mul(a["n"], I(radix)), a["lsd"]), I(I32_MAX)),
                                              lambda p: tm.eq(p, tm.add(tm.mul(a["n"], I(radix)), a["lsd"]))),
                witnesses=[("largest representable", lambda a: tm.eq(tm.add(tm.mul(a["n"], I(radix)), a["lsd"]), I(I32_MAX))),
                           ("first too big", lambda a: tm.eq(tm.add(tm.mul(a["n"], I(radix)), a["lsd"]), I(I32_MAX + 1)))],
                funcs=[f"texlang::parse::integer::add_lsd::<{radix}> (private; generic MIR with RADIX bound)"],
                bound=f"every accumulated value n in [0, 2^31) and digit in [0, {radix}): n*{radix}+d, 'number too big' exactly above 2^31-1 (TeX.2021.445)")


A_FEAT = ["p_common"]


def A(name, bound, tier="quick", timeout=600, **kw):
    return dict(engine="A", module="c06_print", name=name, features=A_FEAT, tier=tier, timeout=timeout,
                funcs=["common::Scaled::display_no_units (Display impl, through core::fmt)", "common::Scaled::from_decimal_digits",
                       "common::Scaled::integer_part", "common::Scaled::fractional_part"], bound=bound, **kw)


PROP = {
    "level_text": 'Every arithmetic kernel behind scanning and \\advance/\\multiply/\\divide is compared with a transcription of the cited TeX section for every operand in the stated range (engine B, SMT), and print -> scan is shown to be the identity for every scaled value |s| <= 2^30-1 through the real Display code (engine A, one SAT query). Token-level scanning through the VM is not decided.',
    "title": "Integers, dimensions, glue: scan, print and compute exactly as TeX does",
    "explanation": (
        "Engine B executes the MIR of each arithmetic kernel symbolically (callees inlined, overflow checks as compiled) "
        "and asks z3 and cvc5 whether any operand within the precondition makes the result differ from a transcription "
        "of the cited section of TeX, or reaches a panic. Engine A runs the real Display code through core::fmt into a "
        "byte sink and scans the digits back."),
    "outside": [
        "token-level scanning (parse_integer / scan_dimen over VM token streams): the kernels they call are decided here, the token loop is not",
        "texlang_stdlib::math::*Op::apply are generic forwarding wrappers (N::checked_mul etc.) and are not re-encoded; their targets are",
        "Scaled::parse_from_string / parse_no_units (String API): the print/scan harnesses split the printed text themselves and call from_decimal_digits and Scaled::new",
        "printing of glue (Display for Glue: ' plus ' / ' minus ' and the fil units): a harness that prints a symbolic glue and scans the three numbers back gave no verdict in 25 min (18 GB) even with small amounts, and is not registered; \\the through the VM",
        "operands outside the stated preconditions are the subject of C09 (panic freedom), not of this property",
    ],
    "assumptions": [
        "models of core integer methods (checked_*, wrapping_*, try_into, cmp, Try::branch, unwrap/expect) in mir2smt/models.py",
        "rustc nightly MIR of the same source (-C overflow-checks=on, debug-assertions=off); validated per run against the native dev build on a vector set",
        "mathematical-integer encoding with explicit mod-2^k wrap; every query must be decided by z3 and/or cvc5, disagreement = inconclusive",
    ],
    "obligations": [
        B("c06_from_integer", (None, "from_integer", "Scaled", None), [("i", "i32")],
          lambda a, ret: result_is(ret, tm.lt(tm.abs_(a["i"]), I(1 << 14)), lambda p: tm.eq(f0(p), tm.mul(a["i"], I(65536)))),
          witnesses=[("i = -16383", lambda a: tm.eq(a["i"], I(-16383))), ("i = 16384 (error)", lambda a: tm.eq(a["i"], I(16384)))],
          native={"fn": "Scaled::from_integer", "args": ["i"]}, bound="every i32"),
        B("c06_xn_over_d", (None, "xn_over_d", "Scaled", None), [("x", "&Scaled"), ("n", "i32"), ("d", "i32")], post_xn_over_d,
          pre=lambda a: tm.and_(tm.le(I(0), a["n"]), tm.le(a["n"], I(65536)), tm.le(I(1), a["d"]), tm.le(a["d"], I(65536))),
          witnesses=[("negative x with remainder", lambda a: tm.and_(tm.lt(f0(a["x"]), I(0)), tm.eq(a["d"], I(7)), tm.eq(a["n"], I(3)))),
                     ("overflowing quotient", lambda a: tm.and_(tm.eq(f0(a["x"]), I(1 << 30)), tm.eq(a["n"], I(2)), tm.eq(a["d"], I(1))))],
          native={"fn": "Scaled::xn_over_d", "args": ["x.0", "n", "d"], "vector_filter": lambda v: 0 <= v["n"] <= 65536 and 1 <= v["d"] <= 65536},
          bound="every x in i32, n in [0, 2^16], d in [1, 2^16] (the documented contract; TeX.2021.107)"),
        B("c06_nx_plus_y", (None, "nx_plus_y", "Scaled", None), [("x", "Scaled"), ("n", "i32"), ("y", "Scaled")], post_nx_plus_y,
          pre=lambda a: tm.and_(legal_dimen(f0(a["y"])), tm.gt(a["n"], I(I32_MIN)), tm.gt(f0(a["x"]), I(I32_MIN))),
          witnesses=[("n negative", lambda a: tm.lt(a["n"], I(0))), ("overflow verdict", lambda a: tm.and_(tm.eq(a["n"], I(65536)), tm.eq(f0(a["x"]), I(16384))))],
          native={"fn": "Scaled::nx_plus_y", "args": ["x.0", "n", "y.0"]},
          bound="every x, n in (-2^31, 2^31), every legal dimension y (|y| < 2^30); TeX.2021.105 with max_answer = 2^30-1",
          smt_timeout=120),
        B("c06_scaled_new", (None, "new", "Scaled", None), [("i", "i32"), ("f", "Scaled"), ("u", "ScaledUnit")], post_scaled_new,
          pre=lambda a: tm.and_(tm.le(I(0), a["i"]), tm.le(I(0), f0(a["f"])), tm.lt(f0(a["f"]), I(65536))),
          witnesses=[("inch, fraction", lambda a: tm.and_(tm.eq(tag(a["u"]), I(2)), tm.eq(a["i"], I(226)), tm.eq(f0(a["f"]), I(40000)))),
                     ("sp unit at the limit", lambda a: tm.and_(tm.eq(tag(a["u"]), I(8)), tm.eq(a["i"], I(MAX_DIMEN)))),
                     ("didot overflow boundary", lambda a: tm.and_(tm.eq(tag(a["u"]), I(6)), tm.eq(a["i"], I(15312))))],
          native={"fn": "Scaled::new", "args": ["i", "f.0", "u"], "vector_filter": lambda v: v["i"] >= 0 and 0 <= v["f.0"] < 65536},
          bound="every integer part in [0, 2^31), every fraction in [0, 2^16), all nine units (TeX.2021.458)", smt_timeout=120),
        B("c06_integer_part", (None, "integer_part", "Scaled", None), [("x", "Scaled")],
          lambda a, ret: tm.eq(ret, tm.tdiv(f0(a["x"]), I(65536))), native={"fn": "Scaled::integer_part", "args": ["x.0"]},
          witnesses=[("negative", lambda a: tm.eq(f0(a["x"]), I(-65537)))], bound="every i32"),
        B("c06_fractional_part", (None, "fractional_part", "Scaled", None), [("x", "Scaled")],
          lambda a, ret: tm.eq(f0(ret), tm.trem(f0(a["x"]), I(65536))), native={"fn": "Scaled::fractional_part", "args": ["x.0"]},
          witnesses=[("negative", lambda a: tm.eq(f0(a["x"]), I(-65537)))], bound="every i32"),
        B("c06_scaled_wrapping_add", (None, "wrapping_add", "Scaled", None), [("x", "Scaled"), ("y", "Scaled")],
          lambda a, ret: tm.eq(f0(ret), wrap32(tm.add(f0(a["x"]), f0(a["y"])))), native={"fn": "Scaled::wrapping_add", "args": ["x.0", "y.0"]},
          witnesses=[("wraps", lambda a: tm.and_(tm.eq(f0(a["x"]), I(I32_MAX)), tm.eq(f0(a["y"]), I(1))))], bound="every pair of i32 (TeX.2021.1238: silent wrap-around)"),
        B("c06_scaled_checked_mul", (None, "checked_mul", "Scaled", None), [("x", "Scaled"), ("n", "i32")],
          lambda a, ret: (lambda okv: option_is(ret, okv[0], lambda p: tm.eq(f0(p), okv[1])))(tex_mult_and_add(a["n"], f0(a["x"]), I(0), MAX_DIMEN)),
          pre=lambda a: tm.and_(tm.gt(a["n"], I(I32_MIN)), tm.gt(f0(a["x"]), I(I32_MIN))),
          witnesses=[("overflow", lambda a: tm.and_(tm.eq(a["n"], I(-3)), tm.eq(f0(a["x"]), I(1 << 29)))),
                     ("exactly max_dimen", lambda a: tm.and_(tm.eq(a["n"], I(-1)), tm.eq(f0(a["x"]), I(-MAX_DIMEN))))],
          native={"fn": "Scaled::checked_mul", "args": ["x.0", "n"]}, smt_timeout=120,
          bound="every x, n in (-2^31, 2^31): \\multiply on a dimension = TeX.2021.1240 nx_plus_y(x, n, 0)"),
        B("c06_scaled_checked_div", (None, "checked_div", "Scaled", None), [("x", "Scaled"), ("n", "i32")],
          lambda a, ret: option_is(ret, tm.ne(a["n"], I(0)), lambda p: tm.eq(f0(p), tex_x_over_n(f0(a["x"]), a["n"]))),
          pre=lambda a: tm.gt(f0(a["x"]), I(I32_MIN)),
          witnesses=[("negative / negative", lambda a: tm.and_(tm.eq(a["n"], I(-3)), tm.eq(f0(a["x"]), I(-7)))), ("by zero", lambda a: tm.eq(a["n"], I(0)))],
          native={"fn": "Scaled::checked_div", "args": ["x.0", "n"]}, bound="every x in (-2^31, 2^31), every i32 divisor: TeX.2021.106 x_over_n"),
        B("c06_glue_wrapping_add", (None, "wrapping_add", "Glue", None), [("lhs", "Glue"), ("rhs", "Glue")], post_glue_wrapping_add,
          witnesses=[("different orders", lambda a: tm.and_(tm.eq(glue_fields(a["lhs"])[2], I(1)), tm.eq(glue_fields(a["rhs"])[2], I(0)))),
                     ("zero stretch of higher order", lambda a: tm.and_(tm.eq(glue_fields(a["rhs"])[1], I(0)), tm.eq(glue_fields(a["rhs"])[2], I(2)), tm.eq(glue_fields(a["lhs"])[1], I(5))))],
          native={"fn": "Glue::wrapping_add", "args": ["lhs.width.0", "lhs.stretch.0", "lhs.stretch_order", "lhs.shrink.0", "lhs.shrink_order",
                                                       "rhs.width.0", "rhs.stretch.0", "rhs.stretch_order", "rhs.shrink.0", "rhs.shrink_order"]},
          bound="every pair of glue values (all i32 amounts, all 4x4 orders): \\advance on glue = TeX.2021.1239"),
        B("c06_glue_checked_add", (None, "checked_add", "Glue", None), [("lhs", "Glue"), ("rhs", "Glue")], post_glue_checked_add,
          witnesses=[("stretch sum overflows", lambda a: tm.and_(tm.eq(glue_fields(a["lhs"])[1], I(I32_MAX)), tm.eq(glue_fields(a["rhs"])[1], I(1)), tm.eq(glue_fields(a["lhs"])[2], I(0)), tm.eq(glue_fields(a["rhs"])[2], I(0)))),
                     ("higher order on the left keeps its amount", lambda a: tm.and_(tm.eq(glue_fields(a["lhs"])[2], I(3)), tm.eq(glue_fields(a["lhs"])[1], I(7)), tm.eq(glue_fields(a["rhs"])[2], I(1)), tm.eq(glue_fields(a["rhs"])[1], I(9))))],
          native={"fn": "Glue::checked_add", "args": ["lhs.width.0", "lhs.stretch.0", "lhs.stretch_order", "lhs.shrink.0", "lhs.shrink_order",
                                                      "rhs.width.0", "rhs.stretch.0", "rhs.stretch_order", "rhs.shrink.0", "rhs.shrink_order"]},
          bound="every pair of glue values: TeX.2021.1239 with an overflow verdict exactly when a sum that is actually formed leaves i32"),
        B("c06_glue_checked_mul", (None, "checked_mul", "Glue", None), [("g", "Glue"), ("n", "i32")], post_glue_checked_mul,
          pre=lambda a: tm.and_(tm.gt(a["n"], I(I32_MIN)), *[tm.gt(glue_fields(a["g"])[k], I(I32_MIN)) for k in (0, 1, 3)]),
          witnesses=[("shrink overflows only", lambda a: tm.and_(tm.eq(a["n"], I(4)), tm.eq(glue_fields(a["g"])[3], I(1 << 28)), tm.eq(glue_fields(a["g"])[0], I(1))))],
          native={"fn": "Glue::checked_mul", "args": ["g.width.0", "g.stretch.0", "g.stretch_order", "g.shrink.0", "g.shrink_order", "n"]},
          smt_timeout=180, bound="every glue (amounts in (-2^31, 2^31)) and every n in (-2^31, 2^31): TeX.2021.1240"),
        add_lsd(8), add_lsd(10), add_lsd(16),
        A("c06_print_scan_every_fraction", "every fraction 0..65535 sp with either sign (integer part 0): the digits printed are exactly those of TeX.2021.103 (print_scaled), 1..5 of them, and scan back exactly"),
        A("c06_print_scan_every_integer_part", "every integer part 0..16383 with either sign and fraction in {0, 1, 32768, 65535} sp (the fraction digits depend on the fractional part only, the integer digits on the integer part only)"),
        A("c06_print_scan_every_value", "every scaled value |s| <= 2^30-1 in one query: printed integer part and fraction digits are exactly print_scaled's (TeX.2021.103) and scan back to s (the whole print/scan quantifier of the property)", timeout=1200),
        B("c06_glue_checked_div", (None, "checked_div", "Glue", None), [("g", "Glue"), ("n", "i32")], post_glue_checked_div,
          pre=lambda a: tm.and_(*[tm.gt(glue_fields(a["g"])[k], I(I32_MIN)) for k in (0, 1, 3)]),
          witnesses=[("by zero", lambda a: tm.eq(a["n"], I(0))), ("negative divisor", lambda a: tm.and_(tm.eq(a["n"], I(-2)), tm.eq(glue_fields(a["g"])[1], I(-5))))],
          native={"fn": "Glue::checked_div", "args": ["g.width.0", "g.stretch.0", "g.stretch_order", "g.shrink.0", "g.shrink_order", "n"]},
          bound="every glue (amounts in (-2^31, 2^31)) and every i32 divisor: TeX.2021.1240 / 106"),
    ],
}
