F = ["p_stdext"]
ENV = {"VERIF_MAP_CAP": "3"}
GM = ["GroupingContainer::{insert,get,begin_group,end_group}", "BackingContainer for (shim) HashMap", "EndOfGroupAction"]
SHIM = "cfg(kani) verif_map::{HashMap,Stack} replace std HashMap and the Vec used as group stack (array-backed, capacity 3 / depth 4; contract kept, implementation replaced)"


def G(name, bound, tier="quick", timeout=900, funcs=GM, **kw):
    return dict(engine="A", module="c20_grouping", name=name, features=F, env=ENV, tier=tier, timeout=timeout, funcs=funcs, bound=bound, stubs=[SHIM], **kw)


def M(name, bound, tier="quick", timeout=600):
    return dict(engine="A", module="c20_matcher", name=name, features=F, env=ENV, tier=tier, timeout=timeout,
                funcs=["substringsearch::Matcher::new", "substringsearch::Matcher::start", "substringsearch::Search::next", "nevec::Nevec::{with_capacity,push,len,index}"], bound=bound)


def N(name, bound, tier="thorough", timeout=1500, **kw):
    return dict(**kw, engine="A", module="c20_interner", name=name, features=F, env=ENV, tier=tier, timeout=timeout,
                funcs=["interner::Interner::{get_or_intern,get,get_internal,resolve}", "interner::populate_dedup_map", "interner::Key for NonZeroU32"],
                bound=bound, stubs=[SHIM])


# ---------------------------------------------------------------- Tag::new: one inductive step (engine B)
def _tag_obligation():
    from mir2smt import term as tm
    from mir2smt.term import I
    from mir2smt.execmir import Agg, Enum, Ref, Cell

    def build(sym, bind):
        if sym.consts is not None:
            n0 = I(sym.consts.get("next_tag_value", 1))
        else:
            n0 = tm.V("next_tag_value")
            sym.assumes.append(tm.and_(tm.le(I(1), n0), tm.le(n0, I((1 << 32) - 2))))
            sym.vars["next_tag_value"] = "u32"
        return {"n0": n0}, []

    def env_lock(ex, m, args, tys, st, fn, symargs):
        st.counter = Ref(Cell(symargs["n0"]))  # the value protected by the mutex, arbitrary but not exhausted
        return [(st, Enum(0, {0: [st.counter]}, "Result"))]

    def env_deref(ex, m, args, tys, st, fn, symargs):
        return [(st, ex.deref(args[0]))]  # &guard -> &mut u32 inside the mutex

    def env_nonzero_new(ex, m, args, tys, st, fn, symargs):
        n = args[0]
        s2 = st.fork()
        if not st.assume(tm.ne(n, I(0))):
            return [(s2, Enum(0, {}, "Option"))] if s2.assume(tm.eq(n, I(0))) else []
        out = [(st, Enum(1, {1: [n]}, "Option"))]
        if s2.assume(tm.eq(n, I(0))):
            out.append((s2, Enum(0, {}, "Option")))
        return out

    def post(a, ret, st):
        tag_value = ret.fields[0]
        after = st.counter.cell.v
        return tm.and_(tm.eq(tag_value, a["n0"]), tm.eq(after, tm.add(a["n0"], I(1))))

    return dict(engine="B", name="c20_tag_new_inductive_step", crates=["texlang"], fn=("texlang", "new", "Tag", None),
                args=[], build_args=build, post=post, post_state=True,
                env_models=[(r"^std::sync::Mutex::<u32>::lock$", env_lock),
                            (r"^<std::sync::MutexGuard<'_, u32> as (?:std::ops::)?Deref(?:Mut)?>::deref(?:_mut)?$", env_deref),
                            (r"^NonZero::<u32>::new$", env_nonzero_new)],
                witnesses=[("first tag", lambda a: tm.eq(a["n0"], I(1))), ("a large counter", lambda a: tm.eq(a["n0"], I((1 << 32) - 2)))],
                funcs=["texlang::command::Tag::new (MIR; the mutex replaced by a stub that hands out the protected counter with an arbitrary value)"],
                bound="one call from an arbitrary counter value in [1, 2^32-2]: returns exactly the counter and leaves counter+1, never panics - by induction, sequentially created tags are strictly increasing, hence pairwise distinct (threads are NOT decided: the stub assumes the lock is held exclusively and not poisoned)")


PROP = {
    "level_text": "Sequential behaviour only, within the stated bounds: scoped map vs stack of snapshots for every history, KMP matcher vs the naive definition, interner under colliding hashers. 'From any number of threads' is NOT decided (Kani does not model threads).",
    "title": "Core containers and identifiers meet their sequential specs",
    "explanation": (
        "The scoped map is driven through a fully symbolic history (operation kind, key, value and scope of every step "
        "are solver variables) and compared with a stack-of-snapshots model after every step; the KMP matcher is compared "
        "with the naive definition on every pattern/text of the stated sizes; the interner is instantiated with hashers under "
        "which hashes collide."),
    "outside": [
        "iter_all + FromIterator ('replaying its full iteration rebuilds a map'): NOT decided. The rebuild harness ran CBMC out of memory after every 3-operation history (14 GB) and after every 2-operation history (28 GB limit, 472 s); it is kept in the harness file but not registered",
        "schedules: neither engine models threads, so 'tags created from any number of threads are distinct' is NOT decided; sequentially it follows by induction from c20_tag_new_inductive_step (mutual exclusion of the std Mutex is trusted, not checked); StaticTag (OnceLock) is not decided",
        "histories longer than 6 operations (8 with the fixed prefixes), nesting deeper than 3, more than 2 keys",
        "GroupingVec (Vec-backed) histories: its backing Vec<Option<V>> resizes on a symbolic key; only the HashMap-backed instantiation is decided",
        "interner: strings longer than 2 bytes, more than 3 strings (and of 3 strings only the length triple 1,2,1), the serde rebuild path; the serde rebuild path",
        "matcher: patterns longer than 5, texts longer than 12, alphabets larger than 3",
    ],
    "assumptions": ["iteration order of the map stand-in is slot order (one legal HashMap order); order-dependence is not explored"],
    "obligations": [
        G("c20_grouping_hashmap_merged4", "every history of 4 operations over {begin, end, insert local, insert global} x 2 keys x 2 values, depth <= 2"),
        G("c20_grouping_hashmap_prefix_local_then4", "from inside an open group with one local binding (key, value symbolic): every history of 4 further operations, depth <= 2 (reaches 6-deep scenarios such as local/begin/global/end/end)", timeout=1500),
        G("c20_grouping_hashmap_depth3_prefix_then4", "from inside two open groups, each with one local binding (keys, values symbolic): every history of 4 further operations, depth <= 3", tier="thorough", timeout=1800),
        G("c20_grouping_hashmap_merged5", "every history of 5 operations, depth <= 2", tier="thorough", timeout=1200),
        G("c20_grouping_hashmap_merged6", "every history of 6 operations, depth <= 2", tier="thorough", timeout=1800),
        _tag_obligation(),
        M("c20_matcher_m1_n6", "pattern length 1, text length 6, alphabet {a,b}: all 2^7 instances"),
        M("c20_matcher_m2_n6", "pattern length 2, text length 6, alphabet {a,b}"),
        M("c20_matcher_m3_n7", "pattern length 3, text length 7, alphabet {a,b}"),
        M("c20_matcher_m4_n8", "pattern length 4, text length 8, alphabet {a,b}: all 2^12 instances"),
        M("c20_matcher_m3_n10_abc", "pattern length 3, text length 10, alphabet {a,b,c}", tier="thorough", timeout=1200),
        M("c20_matcher_m5_n12_abc", "pattern length 5, text length 12, alphabet {a,b,c}: all 3^17 instances", tier="thorough", timeout=1800),
        N("c20_interner_two_collide_22", "two strings of length 2 over {a,b}, all hashes collide", tier="quick", timeout=900),
        N("c20_interner_two_collide_12", "strings of length 1 and 2, all hashes collide", tier="quick", timeout=900),
        N("c20_interner_all_collide_121", "three strings of lengths 1,2,1, all hashes collide (alone: 561 s, 8 GB)", timeout=1800, mem_gb=28),
    ],
}
