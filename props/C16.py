SER = ["dvi::Op::serialize", "dvi::serialize::serialize", "dvi::serialize::Writer::{u8,i32,u32,u16,u32_var,i32_var,str,str_len,str_content}"]
DE = ["dvi::Op::deserialize", "dvi::deserialize::deserialize", "dvi::deserialize::Deserializer::{u8,i8,u16,i16,u24,i24,u32,i32,string,string_l,extension,font_def,get}"]
F = ["p_dvi"]
LOSSY = "std::string::String::from_utf8_lossy -> ASCII identity model (std is trusted base; its UTF-8 validation loop on symbolic bytes does not finish under CBMC)"


def rt(name, bound, tier="quick", timeout=300, stubs=None, funcs=None, **kw):
    return dict(engine="A", module="c16_dvi", name=name, features=F, tier=tier, timeout=timeout,
                funcs=funcs or (SER + DE), bound=bound, stubs=stubs or [], **kw)


from props import c16_varremover  # noqa: E402  (engine B: one step of VarRemover::next from an arbitrary tracker state)

PROP = {
    "level_text": ("Encode/decode round trip for every operand of every operation class with an arbitrary suffix (which gives sequences of any length by induction) and decoder totality on the numeric "
                   "opcode classes are decided by Kani/CBMC. The w/x/y/z rewriting (VarRemover) is decided by the MIR engine as one inductive step: from an arbitrary state of the position tracker and for each "
                   "kind of operation with arbitrary operands, the operation emitted moves (h, v) as the original does under the DVI standard, mentions no variable, every other operation passes through "
                   "unchanged, and the tracked variables stay the standard's (operands bounded by 2^24; stacks of 0-2 saved states)."),
    "title": "DVI encoding round-trips; decoder is total; variable removal preserves positions (one inductive step)",
    "explanation": (
        "Round trip is decided per opcode class with every operand fully symbolic and an arbitrary suffix after the "
        "encoding: decode(enc(op) ++ suffix) = (op, suffix). By induction over the number of operations this is the "
        "sequence property for sequences of any length (post_post excepted: its 223 padding absorbs following 223s by "
        "construction of the format, so there the suffix is assumed not to start with 223)."),
    "outside": [
        "strings longer than 2 bytes and non-ASCII strings in pre/fnt_def (String cannot hold invalid UTF-8; from_utf8_lossy is stubbed)",
        "fnt_def: only the (form, area length, name length) combinations instantiated; string contents concrete there",
        "xxx payloads longer than 2 bytes (xxx2..xxx4 forms need >= 256 payload bytes)",
        "post_post with more than 7 padding bytes",
        "decoder totality for string lengths > 2 and for xxx2-4 / fnt_def2-4 (symbolic string lengths make the memcpy post-processing exceed memory; lengths are pinned to 0..=2) and for set_char/fnt_num single-byte opcodes (covered by the round trips)",
        "VarRemover: position overflow (|operand| > 2^24 accumulating past i32), stacks deeper than 2 saved states in one step (the step does not depend on the depth beyond push/pop of the top), the h/v/font part of dvi::Values (not needed by the rewriting; Kani attempts on whole streams ran out of memory, DESIGN.md 2.4)",
    ],
    "assumptions": ["Kani/CBMC model of the Rust semantics and of alloc (Vec/String) is trusted", "rustc MIR as compiled by Kani's pinned toolchain, dev profile with overflow checks"],
    "obligations": [
        rt("c16_rt_right", "every i32 operand; 3 arbitrary suffix bytes"),
        rt("c16_rt_down", "every i32 operand; 3 arbitrary suffix bytes"),
        rt("c16_rt_setvar_w", "every i32 operand"),
        rt("c16_rt_setvar_x", "every i32 operand"),
        rt("c16_rt_setvar_y", "every i32 operand"),
        rt("c16_rt_setvar_z", "every i32 operand"),
        rt("c16_rt_move_and_simple", "the 8 operand-less operations w0 x0 y0 z0 nop eop push pop"),
        rt("c16_rt_put_char", "every u32 character, put1..put4"),
        rt("c16_rt_set_char_long", "every u32 character >= 128, set1..set4"),
        rt("c16_rt_set_char_short_lo", "set_char_0..63"),
        rt("c16_rt_set_char_short_hi", "set_char_64..127"),
        rt("c16_rt_rule", "every (height, width) in i32 x i32, set_rule and put_rule"),
        rt("c16_rt_font_long", "every u32 font number >= 64, fnt1..fnt4"),
        rt("c16_rt_font_short", "fnt_num_0..63"),
        rt("c16_rt_begin_page", "all ten i32 parameters and the back pointer symbolic"),
        rt("c16_rt_begin_postamble", "all eight fields symbolic"),
        rt("c16_rt_end_postamble", "0..=7 padding bytes; arbitrary non-223 suffix", assumes=["post_post: the byte after the padding is not 223"]),
        rt("c16_rt_extension_short", "xxx1 with 0..=2 arbitrary payload bytes"),
        rt("c16_rt_preamble", "pre with every numeric field symbolic and a comment of 0..=2 symbolic ASCII bytes", stubs=[LOSSY]),
        rt("c16_total_char_forms", "opcodes 128..=137 x every length 1..=6 x all remaining bytes symbolic", funcs=DE, timeout=900),
        rt("c16_total_motion_forms", "opcodes 143..=170 x every length 1..=6 x all remaining bytes symbolic", funcs=DE, timeout=900),
        rt("c16_total_font_forms", "opcodes 235..=238 x every length 1..=6", funcs=DE, timeout=900),
        rt("c16_total_invalid_opcodes", "opcodes 250..=255: always InvalidOpCode", funcs=DE, timeout=900),
        rt("c16_total_rule_forms", "set_rule x every length 1..=10 (all truncations)", funcs=DE, timeout=900),
        rt("c16_total_end_postamble", "post_post x every length 1..=10", funcs=DE, timeout=900),
        rt("c16_total_xxx1_pinned", "xxx1 with its length byte pinned to each of 0..=2, every truncation length 1..=5, other bytes symbolic", funcs=DE, timeout=900, stubs=[LOSSY]),
        rt("c16_total_pre_pinned", "pre with the comment length pinned to each of 0..=2, every truncation length 1..=17", funcs=DE, timeout=1200, stubs=[LOSSY]),
        rt("c16_total_fnt_def1_pinned", "fnt_def1 with area/name lengths pinned to each of {0,1}^2, every truncation length 1..=17", funcs=DE, timeout=1200, stubs=[LOSSY]),
        rt("c16_total_begin_postamble", "post x every length 1..=30 (all truncations)", funcs=DE, tier="thorough", timeout=1200),
        rt("c16_total_bop_and_post", "bop x every length 1..=46 (all truncations)", funcs=DE, tier="thorough", timeout=1200),
        rt("c16_rt_define_font_1_a0n2", "fnt_def1, every number<256/checksum/sizes; area len 0, name len 2 (concrete bytes)", tier="thorough", timeout=900, stubs=[LOSSY]),
        rt("c16_rt_define_font_1_a2n1", "fnt_def1; area len 2, name len 1", tier="thorough", timeout=900, stubs=[LOSSY]),
        rt("c16_rt_define_font_2_a1n1", "fnt_def2, every 2-byte number; area len 1, name len 1", tier="thorough", timeout=900, stubs=[LOSSY]),
        rt("c16_rt_define_font_3_a1n2", "fnt_def3, every 3-byte number; area len 1, name len 2", tier="thorough", timeout=900, stubs=[LOSSY]),
        rt("c16_rt_define_font_4_a2n0", "fnt_def4, every 4-byte number; area len 2, name len 0", tier="thorough", timeout=900, stubs=[LOSSY]),
    ] + c16_varremover.OBLIGATIONS,
}
