"""C09 — totality, the subset this technique reaches: panic/overflow freedom of the arithmetic kernels
for EVERY value of their operand types (not only TeX-legal ones), decided from MIR by z3 + cvc5."""
from mir2smt import term as tm
from mir2smt.term import I
from mir2smt.spec import f0, glue_fields, MAX_DIMEN, I32_MIN

C = ["common"]


def B(name, fn, args, pre=None, witnesses=(), native=None, bound="every value of the operand types", **kw):
    funcs = ["common::" + (fn[1] + "::" if fn[1] else "") + fn[0] + " (MIR, callees inlined): every overflow / negate / divide / unwrap / expect / unreachable site"]
    return dict(engine="B", name=name, crates=C, fn=("common", fn[0], fn[1], fn[2] if len(fn) > 2 else None), args=args, post=None, pre=pre,
                witnesses=list(witnesses), native=native, funcs=funcs, bound=bound, **kw)


G10 = ["lhs.width.0", "lhs.stretch.0", "lhs.stretch_order", "lhs.shrink.0", "lhs.shrink_order", "rhs.width.0", "rhs.stretch.0", "rhs.stretch_order", "rhs.shrink.0", "rhs.shrink_order"]
G6 = ["g.width.0", "g.stretch.0", "g.stretch_order", "g.shrink.0", "g.shrink_order", "n"]

PROP = {
    "title": "Interpreter totality (subset): arithmetic kernels never panic, for every operand",
    "level_text": (
        "Only a subset of the property is decided: for the arithmetic kernels behind integer/dimension/glue scanning and "
        "\\advance/\\multiply/\\divide, every MIR panic site (overflow, negation, division, unwrap/expect) is shown unreachable for "
        "every operand value, or the solver returns the operand that panics. Whole-interpreter totality over arbitrary text is NOT claimed."),
    "explanation": (
        "Each obligation asks z3 and cvc5 whether any operand (full 32-bit range, enum tags included) reaches a panic site in the MIR "
        "of the kernel with all callees inlined (overflow checks as compiled in the dev profile)."),
    "outside": [
        "arbitrary UTF-8 input through VM::run, the four interaction modes, error rendering (error/display.rs), the shutdown protocol: NOT decided (the VM cannot be symbolically executed within reach)",
        "token-level scanners (scan_dimen, scan_and_apply_units, parse_integer, Glue::parse): their call sites `i.abs()`, `d * negative`, `xn_over_d(..).expect(..)` are not encoded; only the kernels they call are",
        "register indices, character codes (char::from_u32(..).unwrap()), \\catcode 55296, \\the\\relax",
    ],
    "assumptions": ["dev-profile semantics (overflow checks on): an overflow that would wrap silently in a release build is reported as a panic here"],
    "obligations": [
        B("c09_from_integer_any", ("from_integer", "Scaled"), [("i", "i32")], witnesses=[("i32::MIN", lambda a: tm.eq(a["i"], I(I32_MIN)))],
          native={"fn": "Scaled::from_integer", "args": ["i"]}),
        B("c09_xn_over_d_any_x", ("xn_over_d", "Scaled"), [("x", "&Scaled"), ("n", "i32"), ("d", "i32")],
          pre=lambda a: tm.and_(tm.le(I(0), a["n"]), tm.le(a["n"], I(65536)), tm.le(I(1), a["d"]), tm.le(a["d"], I(65536))),
          witnesses=[("x = i32::MIN", lambda a: tm.eq(f0(a["x"]), I(I32_MIN)))],
          native={"fn": "Scaled::xn_over_d", "args": ["x.0", "n", "d"], "vector_filter": lambda v: 0 <= v["n"] <= 65536 and 1 <= v["d"] <= 65536},
          bound="every x in i32; n in [0, 2^16], d in [1, 2^16] (documented contract; d = 0 divides by zero and is outside it)"),
        B("c09_nx_plus_y_any_xn", ("nx_plus_y", "Scaled"), [("x", "Scaled"), ("n", "i32"), ("y", "Scaled")],
          pre=lambda a: tm.le(tm.abs_(f0(a["y"])), I(MAX_DIMEN)),
          witnesses=[("n = -2^31", lambda a: tm.eq(a["n"], I(I32_MIN))), ("x = -2^31, n = -1", lambda a: tm.and_(tm.eq(f0(a["x"]), I(I32_MIN)), tm.eq(a["n"], I(-1)))),
                     ("x = -2^31, n = 1", lambda a: tm.and_(tm.eq(f0(a["x"]), I(I32_MIN)), tm.eq(a["n"], I(1))))],
          native={"fn": "Scaled::nx_plus_y", "args": ["x.0", "n", "y.0"]}, smt_timeout=120,
          bound="every x and n in i32 (i32::MIN included), every legal dimension y"),
        B("c09_scaled_new_any_fraction", ("new", "Scaled"), [("i", "i32"), ("f", "Scaled"), ("u", "ScaledUnit")],
          pre=lambda a: tm.and_(tm.le(I(0), a["i"]), tm.le(I(0), f0(a["f"])), tm.le(f0(a["f"]), I(65536))),
          witnesses=[("fraction = 65536 (rounding carry of from_decimal_digits)", lambda a: tm.eq(f0(a["f"]), I(65536)))],
          native={"fn": "Scaled::new", "args": ["i", "f.0", "u"], "vector_filter": lambda v: v["i"] >= 0 and 0 <= v["f.0"] <= 65536}, smt_timeout=120,
          bound="every integer part in [0, 2^31), every fraction in [0, 2^16] (from_decimal_digits can return exactly 2^16), all nine units: the two .expect() calls and the addition are unreachable"),
        B("c09_scaled_arith_any", ("checked_mul", "Scaled"), [("x", "Scaled"), ("n", "i32")],
          witnesses=[("x = i32::MAX", lambda a: tm.eq(f0(a["x"]), I((1 << 31) - 1))), ("n = i32::MIN", lambda a: tm.eq(a["n"], I(I32_MIN)))],
          native={"fn": "Scaled::checked_mul", "args": ["x.0", "n"]}, smt_timeout=120,
          bound="every x, n in i32 (\\multiply on a dimension register holding any value by any integer)"),
        B("c09_scaled_checked_div_any", ("checked_div", "Scaled"), [("x", "Scaled"), ("n", "i32")],
          witnesses=[("MIN / -1", lambda a: tm.and_(tm.eq(f0(a["x"]), I(I32_MIN)), tm.eq(a["n"], I(-1))))], native={"fn": "Scaled::checked_div", "args": ["x.0", "n"]}),
        B("c09_scaled_wrapping_mul_any", ("wrapping_mul", "Scaled"), [("x", "Scaled"), ("n", "i32")],
          witnesses=[("MIN * -1", lambda a: tm.and_(tm.eq(f0(a["x"]), I(I32_MIN)), tm.eq(a["n"], I(-1))))], native={"fn": "Scaled::wrapping_mul", "args": ["x.0", "n"]}),
        B("c09_integer_part_any", ("integer_part", "Scaled"), [("x", "Scaled")], witnesses=[("MIN", lambda a: tm.eq(f0(a["x"]), I(I32_MIN)))],
          native={"fn": "Scaled::integer_part", "args": ["x.0"]}),
        B("c09_fractional_part_any", ("fractional_part", "Scaled"), [("x", "Scaled")], witnesses=[("MIN", lambda a: tm.eq(f0(a["x"]), I(I32_MIN)))],
          native={"fn": "Scaled::fractional_part", "args": ["x.0"]}),
        B("c09_scaled_abs_min", ("abs", "Scaled"), [("x", "Scaled")], pre=lambda a: tm.eq(f0(a["x"]), I(I32_MIN)),
          native={"fn": "Scaled::abs", "args": ["x.0"]}, known_finding="scaled_abs_neg_min", bound="the pinned failing operand x = -2^31"),
        B("c09_scaled_abs_other", ("abs", "Scaled"), [("x", "Scaled")], pre=lambda a: tm.gt(f0(a["x"]), I(I32_MIN)),
          witnesses=[("negative", lambda a: tm.lt(f0(a["x"]), I(0)))], native={"fn": "Scaled::abs", "args": ["x.0"]}, bound="every x > -2^31"),
        B("c09_glue_wrapping_add_any", ("wrapping_add", "Glue"), [("lhs", "Glue"), ("rhs", "Glue")],
          witnesses=[("extreme widths", lambda a: tm.and_(tm.eq(glue_fields(a["lhs"])[0], I(I32_MIN)), tm.eq(glue_fields(a["rhs"])[0], I(I32_MIN))))],
          native={"fn": "Glue::wrapping_add", "args": G10}),
        B("c09_glue_checked_add_any", ("checked_add", "Glue"), [("lhs", "Glue"), ("rhs", "Glue")],
          witnesses=[("extreme widths", lambda a: tm.and_(tm.eq(glue_fields(a["lhs"])[0], I(I32_MIN)), tm.eq(glue_fields(a["rhs"])[0], I(I32_MIN))))],
          native={"fn": "Glue::checked_add", "args": G10}),
        B("c09_glue_checked_div_any", ("checked_div", "Glue"), [("g", "Glue"), ("n", "i32")],
          witnesses=[("MIN / -1 in the shrink", lambda a: tm.and_(tm.eq(glue_fields(a["g"])[3], I(I32_MIN)), tm.eq(a["n"], I(-1))))], native={"fn": "Glue::checked_div", "args": G6}),
        B("c09_glue_wrapping_mul_any", ("wrapping_mul", "Glue"), [("g", "Glue"), ("n", "i32")],
          witnesses=[("MIN * -1", lambda a: tm.and_(tm.eq(glue_fields(a["g"])[0], I(I32_MIN)), tm.eq(a["n"], I(-1))))], native={"fn": "Glue::wrapping_mul", "args": G6}),
    ],
}
