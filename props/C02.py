"""C02 — macro parameters. Only the brace-stripping rule is decided (engine B); argument scanning
and substitution run on VM token streams and are outside (DESIGN.md 2.4)."""
from mir2smt import term as tm
from mir2smt.term import I
from mir2smt.execmir import Agg, Enum, Ref, Cell

BEGIN, END = 0, 1  # token::Value::BeginGroup, EndGroup (discriminants in source order)


def build(k):
    def f(sym, bind):
        toks = []
        tags = []
        for i in range(k):
            t = I(sym.consts.get(f"kind{i}", 9)) if sym.consts is not None else tm.V(f"kind{i}")
            sym.assumes.append(tm.and_(tm.le(I(0), t), tm.le(t, I(10))))
            sym.vars[f"kind{i}"] = "enum Value"
            tags.append(t)
            toks.append(Agg([Enum(t, {}, "Value"), I(0)]))
        sl = Ref(Cell(Agg(toks)))
        return {"list": sl, "tags": tags}, [sl]
    return f


def spec_single_group(tags):
    """TeX.2021.392-393 (m = 1 and the last token is a right brace): the argument is exactly one group,
    i.e. it starts with a left brace whose matching right brace is the last token."""
    k = len(tags)
    if k <= 1:
        return tm.FALSE
    depth = I(0)
    closed_early = tm.FALSE
    for i in range(k - 1):
        depth = tm.add(depth, tm.ite(tm.eq(tags[i], I(BEGIN)), I(1), tm.ite(tm.eq(tags[i], I(END)), I(-1), I(0))))
        closed_early = tm.or_(closed_early, tm.le(depth, I(0)))
    return tm.and_(tm.eq(tags[0], I(BEGIN)), tm.eq(tags[k - 1], I(END)), tm.not_(closed_early))


def balanced_prefixes(tags):
    """Arguments handed to this function are brace-balanced token lists (the scanner guarantees it)."""
    depth = I(0)
    ok = tm.TRUE
    for t in tags:
        depth = tm.add(depth, tm.ite(tm.eq(t, I(BEGIN)), I(1), tm.ite(tm.eq(t, I(END)), I(-1), I(0))))
        ok = tm.and_(ok, tm.ge(depth, I(0)))
    return tm.and_(ok, tm.eq(depth, I(0)))


def witnesses(k):
    if k == 1:
        return [("one ordinary token", lambda a: tm.eq(a["tags"][0], I(9)))]
    w = [("a single group", lambda a: tm.and_(tm.eq(a["tags"][0], I(BEGIN)), tm.eq(a["tags"][k - 1], I(END)), *[tm.gt(t, I(1)) for t in a["tags"][1:k - 1]]))]
    if k >= 4:
        w.append(("two groups {..}{..}", lambda a: tm.and_(tm.eq(a["tags"][0], I(BEGIN)), tm.eq(a["tags"][1], I(END)), tm.eq(a["tags"][k - 2], I(BEGIN)), tm.eq(a["tags"][k - 1], I(END)))))
    return w


def ob(k):
    return dict(engine="B", name=f"c02_trim_outer_braces_len{k}", crates=["texlang"], fn=("texlang", "should_trim_outer_braces_if_present", "Parameter", None),
                args=[("list", "&[Token]")], build_args=build(k), unroll=k + 2,
                pre=lambda a: balanced_prefixes(a["tags"]),
                post=lambda a, ret: tm.or_(tm.and_(ret, spec_single_group(a["tags"])), tm.and_(tm.not_(ret), tm.not_(spec_single_group(a["tags"])))),
                witnesses=witnesses(k),
                funcs=["texlang::texmacro::Parameter::should_trim_outer_braces_if_present (private; MIR; token slice of fixed length, every token kind symbolic)"],
                bound=f"every brace-balanced argument of exactly {k} tokens (all 11 token kinds per position)")


# ---------------------------------------------------------------- parse_delimited_argument (driver level)
def delimited_obligation(k, d, closing):
    """k tokens available on the stream, delimiter of d tokens, closing depth 0 (ordinary delimiter) or 1 (#{ form)."""
    from mir2smt.execmir import Opaque

    def build(sym, bind):
        def kind(name):
            if sym.consts is not None:
                return I(sym.consts.get(name, 9))
            v = tm.V(name)
            sym.assumes.append(tm.and_(tm.le(I(0), v), tm.le(v, I(10))))
            sym.vars[name] = "enum Value"
            return v
        kinds = [kind(f"kind{i}") for i in range(k)]
        pk = kind("prefix_kind")
        # one token from an earlier argument already sits in the shared result buffer
        result = Ref(Cell(Agg([Agg([Enum(pk, {}, "Value"), I(1000)])])))
        args = {"kinds": kinds, "prefix_kind": pk, "result": result, "consts": sym.consts}
        vals = [Opaque("stream"), Ref(Cell(Opaque("matcher"))), I(1), result]
        return args, vals

    def env_start(ex, m, args, tys, st, fn, symargs):
        return [(st, Opaque("search"))]

    def env_substring(ex, m, args, tys, st, fn, symargs):
        return [(st, Ref(Cell(Opaque("delimiter"))))]

    def env_last(ex, m, args, tys, st, fn, symargs):
        return [(st, Ref(Cell(Enum(I(BEGIN if closing == 1 else 9), {}, "Value"))))]

    def env_nevec_len(ex, m, args, tys, st, fn, symargs):
        return [(st, I(d))]

    def env_next_token(ex, m, args, tys, st, fn, symargs):
        i = sum(1 for e in st.log if e[0] == "token")
        if i >= k:
            st.log.append(("end_of_input",))
            return [(st, Enum(1, {1: [Agg([])]}, "Result"))]
        st.log.append(("token", i))
        return [(st, Enum(0, {0: [Agg([Enum(symargs["kinds"][i], {}, "Value"), I(i)])]}, "Result"))]

    def env_matcher_next(ex, m, args, tys, st, fn, symargs):
        # the KMP matcher (decided under C20) is an oracle here: any answer after any token
        i = sum(1 for e in st.log if e[0] == "match")
        st.log.append(("match", i))
        if i + 1 < d:
            return [(st, tm.FALSE)]  # contract of the matcher: a d-token pattern cannot end before d tokens were seen
        c = symargs.get("consts")
        if c is not None:
            return [(st, tm.B(bool(c.get(f"m{i}", 0))))]
        return [(st, tm.V(f"m{i}", "B"))]

    def post(a, ret, st):
        consumed = sum(1 for e in st.log if e[0] == "token")
        res = st.roots[3]
        while isinstance(res, Ref):
            res = res.cell.v
        if ret.tag.val == 1:
            # only the end of the input may end the scan without a match
            return tm.B(st.log[-1] == ("end_of_input",) and consumed == k)
        if consumed < d:
            return tm.FALSE
        n_arg = consumed - d
        arg = a["kinds"][:n_arg]
        # the shared buffer holds the earlier token, then exactly the argument (delimiter removed)
        buf_ok = (len(res.fields) == 1 + n_arg and res.fields[0].fields[1] == I(1000)
                  and all(res.fields[1 + j].fields[1] == I(j) for j in range(n_arg)))
        if not buf_ok:
            return tm.FALSE
        trimmed = ret.pay[0][0]
        want = spec_single_group(arg)
        return tm.implies(balanced_prefixes(arg), tm.or_(tm.and_(trimmed, want), tm.and_(tm.not_(trimmed), tm.not_(want))))

    return dict(engine="B", name=f"c02_delimited_argument_k{k}_d{d}_close{closing}", crates=["texlang"],
                fn=("texlang", "parse_delimited_argument", "Parameter", None), args=[], build_args=build, unroll=k + 3,
                env_models=[(r"^Matcher::<.*>::start$", env_start), (r"^Matcher::<.*>::substring$", env_substring),
                            (r"^Nevec::<.*>::last$", env_last), (r"^Nevec::<.*>::len$", env_nevec_len),
                            (r"^<(?:streams::)?UnexpandedStream<S> as (?:streams::)?TokenStream>::next_or_err::<.*>$", env_next_token),
                            (r"^Search::<.*>::next$", env_matcher_next)],
                post=post, post_state=True,
                witnesses=[("a single braced group is the argument", lambda a: tm.and_(tm.eq(a["kinds"][0], I(BEGIN)), tm.eq(a["kinds"][k - d - 1], I(END)), tm.V(f"m{k - 1}", "B"),
                                                                                 *[tm.not_(tm.V(f"m{i}", "B")) for i in range(k - 1)], tm.eq(a["prefix_kind"], I(9))))] if k - d >= 2 and closing == 0 else [],
                funcs=["texlang::texmacro::Parameter::parse_delimited_argument (generic MIR; token stream, KMP matcher and Vec replaced by stubs/models; should_trim_outer_braces_if_present inlined from the dump)"],
                bound=(f"a stream of {k} tokens of arbitrary kinds, a {d}-token delimiter ({'ending in {' if closing else 'ordinary'}), an arbitrary matcher answer after every token, one token of an "
                       "earlier argument already in the shared buffer: the scan stops at the first match at the closing depth, removes exactly the delimiter, leaves the earlier token alone, and strips braces iff the argument alone is a single group"),
                assumes=["the KMP matcher is an oracle (any answer sequence, except that a d-token delimiter cannot match before d tokens were read); that it answers correctly is decided under C20"])


from props import c02_subst  # noqa: E402  (substitution, Macro::call, undelimited arguments)

PROP = {
    "title": "Macro parameters: argument scanning, brace stripping and #n substitution (driver level)",
    "level_text": (
        "Five pieces are decided, all from MIR with the VM side stubbed. (1) The scan of a delimited argument (parse_delimited_argument, stream + KMP matcher stubbed): stops at the first "
        "delimiter match at the closing depth, removes exactly the delimiter, touches nothing before the argument. (2) 'one pair of outer braces is removed only when the whole argument is a single group' "
        "(TeX.2021.393), for every balanced argument of up to 6 tokens. (3) The scan of an undelimited argument (parse_undelimited_argument + finish_parsing_balanced_tokens): one token, or the contents of "
        "a balanced group without its braces, for every stream of up to 7 (thorough 9) tokens. (4) #n substitution (perform_replacement) for every replacement-text structure of up to 2 (thorough 3) "
        "pieces and every token value. (5) Macro::call with the scanner stubbed: arguments scanned in order, outer braces dropped exactly when the scanner says so, the expansion is the substituted "
        "replacement text and lies on top of what was already on the expansion stack. "
        "Delimiter matching itself (C20), skipping blanks before an undelimited argument, prefix matching, \\def's parsing of parameter and replacement text (## and #n recognition) are NOT decided."),
    "explanation": "Parameter::should_trim_outer_braces_if_present is executed from MIR on token slices of each length 1..6 with every token kind symbolic.",
    "outside": [
        "def.rs (parsing of the parameter text and of the replacement text: ##, #n recognition, reversal of token runs), remove_tokens_from_stream (prefix matching), SpacesUnexpanded: VM-bound, NOT decided",
        "Macro::call is decided with the argument scanner stubbed (7 parameter/replacement shapes); 'the tokens after the call are untouched' follows only as far as the scanners consume nothing beyond the argument (pieces 1 and 3)",
        "parse_delimited_argument is decided at driver level only (stream and matcher stubbed, <= 5 tokens, delimiters of 1-2 tokens); 'shortest match' is as good as the matcher's answers (C20)",
        "arguments longer than 6 tokens",
    ],
    "assumptions": ["private function: the translator is not cross-checked natively for this obligation"],
    "obligations": [ob(k) for k in (1, 2, 3, 4, 5, 6)] + [delimited_obligation(4, 1, 0), delimited_obligation(5, 2, 0), delimited_obligation(4, 1, 1)] + c02_subst.OBLIGATIONS,
}
