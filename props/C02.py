"""C02 — macro parameters. Only the brace-stripping rule is decided (engine B); argument scanning
and substitution run on VM token streams and are outside (DESIGN.md 2.4)."""
from mir2smt import term as tm
from mir2smt.term import I
from mir2smt.execmir import Agg, Enum, Ref, Cell

BEGIN, END = 0, 1  # token::Value::BeginGroup, EndGroup (discriminants in source order)


def build(k):
    def f(sym, bind):
        toks = []
        tags = []
        for i in range(k):
            t = I(sym.consts.get(f"kind{i}", 9)) if sym.consts is not None else tm.V(f"kind{i}")
            sym.assumes.append(tm.and_(tm.le(I(0), t), tm.le(t, I(10))))
            sym.vars[f"kind{i}"] = "enum Value"
            tags.append(t)
            toks.append(Agg([Enum(t, {}, "Value"), I(0)]))
        sl = Ref(Cell(Agg(toks)))
        return {"list": sl, "tags": tags}, [sl]
    return f


def spec_single_group(tags):
    """TeX.2021.392-393 (m = 1 and the last token is a right brace): the argument is exactly one group,
    i.e. it starts with a left brace whose matching right brace is the last token."""
    k = len(tags)
    if k <= 1:
        return tm.FALSE
    depth = I(0)
    closed_early = tm.FALSE
    for i in range(k - 1):
        depth = tm.add(depth, tm.ite(tm.eq(tags[i], I(BEGIN)), I(1), tm.ite(tm.eq(tags[i], I(END)), I(-1), I(0))))
        closed_early = tm.or_(closed_early, tm.le(depth, I(0)))
    return tm.and_(tm.eq(tags[0], I(BEGIN)), tm.eq(tags[k - 1], I(END)), tm.not_(closed_early))


def balanced_prefixes(tags):
    """Arguments handed to this function are brace-balanced token lists (the scanner guarantees it)."""
    depth = I(0)
    ok = tm.TRUE
    for t in tags:
        depth = tm.add(depth, tm.ite(tm.eq(t, I(BEGIN)), I(1), tm.ite(tm.eq(t, I(END)), I(-1), I(0))))
        ok = tm.and_(ok, tm.ge(depth, I(0)))
    return tm.and_(ok, tm.eq(depth, I(0)))


def witnesses(k):
    if k == 1:
        return [("one ordinary token", lambda a: tm.eq(a["tags"][0], I(9)))]
    w = [("a single group", lambda a: tm.and_(tm.eq(a["tags"][0], I(BEGIN)), tm.eq(a["tags"][k - 1], I(END)), *[tm.gt(t, I(1)) for t in a["tags"][1:k - 1]]))]
    if k >= 4:
        w.append(("two groups {..}{..}", lambda a: tm.and_(tm.eq(a["tags"][0], I(BEGIN)), tm.eq(a["tags"][1], I(END)), tm.eq(a["tags"][k - 2], I(BEGIN)), tm.eq(a["tags"][k - 1], I(END)))))
    return w


def ob(k):
    return dict(engine="B", name=f"c02_trim_outer_braces_len{k}", crates=["texlang"], fn=("texlang", "should_trim_outer_braces_if_present", "Parameter", None),
                args=[("list", "&[Token]")], build_args=build(k), unroll=k + 2,
                pre=lambda a: balanced_prefixes(a["tags"]),
                post=lambda a, ret: tm.or_(tm.and_(ret, spec_single_group(a["tags"])), tm.and_(tm.not_(ret), tm.not_(spec_single_group(a["tags"])))),
                witnesses=witnesses(k),
                funcs=["texlang::texmacro::Parameter::should_trim_outer_braces_if_present (private; MIR; token slice of fixed length, every token kind symbolic)"],
                bound=f"every brace-balanced argument of exactly {k} tokens (all 11 token kinds per position)")


PROP = {
    "title": "Macro parameters: one pair of outer braces is removed only from a single group",
    "level_text": (
        "Only one clause of the property is decided: 'one pair of outer braces is removed only when the whole argument is a single group' "
        "(TeX.2021.393), for every balanced argument of up to 6 tokens. Delimiter matching, undelimited arguments, #n substitution, ## and "
        "'the tokens after the call are untouched' run on VM token streams and are NOT decided."),
    "explanation": "Parameter::should_trim_outer_braces_if_present is executed from MIR on token slices of each length 1..6 with every token kind symbolic.",
    "outside": [
        "Macro::call, parse_delimited_argument (KMP over the input stream), parse_undelimited_argument, perform_replacement, def.rs parameter-text parsing: VM-bound, NOT decided",
        "arguments longer than 6 tokens",
    ],
    "assumptions": ["private function: the translator is not cross-checked natively for this obligation"],
    "obligations": [ob(k) for k in (1, 2, 3, 4, 5, 6)],
}
