F = ["p_boxworks"]
FUNCS = ["boxworks::ds::HBox::pack", "boxworks::FontRepo::width_height_depth (default method)", "common::Scaled operators"]


def A(name, bound, tier="quick", timeout=900):
    return dict(engine="A", module="c15_hpack", name=name, features=F, tier=tier, timeout=timeout, funcs=FUNCS, bound=bound,
                assumes=["every amount |v| < 2^26 so that the running sums of <= 6 items stay inside i32 (TeX's own validity condition)",
                         "the font repository answers arbitrarily (symbolic Option<[w,h,d]>) for the one character used"])


PROP = {
    "level_text": 'HBox::pack equals a transcription of TeX.2021.649-667 for every list of up to 4 (thorough: 6) items of the stated kinds with every amount symbolic; nothing is claimed for longer lists or the item kinds listed as outside.',
    "title": "Packing a horizontal list produces TeX's box dimensions and glue setting",
    "explanation": (
        "HBox::pack is compared with a transcription of TeX.2021.649-667 that keeps one stretch and one shrink total per order "
        "of infinity. Item kinds, every amount, all 4x4 glue orders, the pack mode and target are solver variables. The glue "
        "ratio is compared as the integer pair (num, den) by cross-multiplication; the float-based PartialEq is not used."),
    "outside": [
        "lists longer than 4 (thorough: 6) items; Mark/Insertion/Adjust/Math items (todo!() in the code), whatsits, discretionaries with content, leaders",
        "over/underfull *reporting* (not implemented in the code)",
        "amounts of magnitude >= 2^26",
    ],
    "assumptions": [],
    "obligations": [
        A("c15_hpack_2_items", "every list of 2 items from {glue, kern, rule, shifted hbox, shifted vbox, penalty, char, ligature, empty discretionary}"),
        A("c15_hpack_3_items", "every list of 3 items", timeout=1500),
        A("c15_hpack_4_items", "every list of 4 items", timeout=1500),
        A("c15_hpack_5_items", "every list of 5 items", tier="thorough", timeout=2400),
        A("c15_hpack_6_items", "every list of 6 items", tier="thorough", timeout=2400),
    ],
}
