"""C01 — group scoping. The VM cannot be symbolically executed in this sandbox (DESIGN.md 2.4), so the
property is decided at the level of its mechanisms:
  (i)  the scoped container behind command definitions equals a stack-of-snapshots model for every
       history (engine A, the C20 harnesses, re-run here);
  (ii) the code that drives it and the variable save stack follows the grouping protocol for every
       number of open groups (engine B: the MIR of the driver functions executed with the containers
       replaced by logging stubs).
The composition of (i) and (ii) into the end-to-end statement is argued in DESIGN.md, not machine-checked."""
import importlib.util
import os

from mir2smt import term as tm
from mir2smt.term import I
from mir2smt.execmir import Agg, Enum, Ref, Cell, Opaque

HERE = os.path.dirname(os.path.abspath(__file__))
_spec = importlib.util.spec_from_file_location("props_C20_for_C01", os.path.join(HERE, "C20.py"))
_c20 = importlib.util.module_from_spec(_spec)
_spec.loader.exec_module(_c20)

CR = ["texlang", "texcraft-stdext"]


def field_index(ref):
    return ref.path[-1] if isinstance(ref, Ref) and ref.path else None


# ---------------------------------------------------------------- stubs for Map::begin_group / end_group
def env_container_begin(ex, m, args, tys, st, fn, symargs):
    st.log.append(("begin", field_index(args[0])))
    return [(st, Agg([]))]


def env_container_end(ex, m, args, tys, st, fn, symargs):
    """GroupingContainer::end_group: Ok(()) or Err(NoGroupToEndError), arbitrarily."""
    idx = field_index(args[0])
    s2 = st.fork()
    st.log.append(("end", idx, "ok"))
    s2.log.append(("end", idx, "err"))
    return [(st, Enum(0, {0: [Agg([])]}, "Result")), (s2, Enum(1, {1: [Agg([])]}, "Result"))]


def post_map_begin(a, ret, st):
    return tm.B(st.log == [("begin", 0), ("begin", 1)])


def post_map_end(a, ret, st):
    log = st.log
    ok = False
    if log == [("end", 0, "ok"), ("end", 1, "ok")]:
        ok = ret.tag.val == 0
    elif log == [("end", 0, "ok"), ("end", 1, "err")] or log == [("end", 0, "err")]:
        ok = ret.tag.val == 1
    return tm.B(ok)


# ---------------------------------------------------------------- stubs for update_save_stack
def make_groups(symargs, n):
    if "__groups__" not in symargs:
        symargs["__groups__"] = Ref(Cell(Agg([Opaque(f"group{k}") for k in range(n)])))
    return symargs["__groups__"]


def env_groups(n):
    def f(ex, m, args, tys, st, fn, symargs):
        # a fresh reference to the same n-element save stack on every call
        return [(st, Ref(Cell(Agg([Opaque(f"group{k}") for k in range(n)]))))]
    return f


def env_current_group(n):
    def f(ex, m, args, tys, st, fn, symargs):
        if n == 0:
            return [(st, Enum(0, {}, "Option"))]
        stack = Ref(Cell(Agg([Opaque(f"group{k}") for k in range(n)])))
        return [(st, Enum(1, {1: [Agg([Ref(stack.cell, (n - 1,)), Opaque("state")])]}, "Option"))]
    return f


def env_map_getter(ex, m, args, tys, st, fn, symargs):
    # F(&mut SaveStackElement) -> &mut SaveStackMap: the map *of that group*
    return [(st, args[1].fields[0])]


def env_remove(ex, m, args, tys, st, fn, symargs):
    idx = field_index(args[0])
    s2 = st.fork()
    st.log.append(("remove", idx))
    s2.log.append(("remove", idx))
    return [(st, Enum(0, {}, "Option")), (s2, Enum(1, {1: [Opaque("stale")]}, "Option"))]


def env_save(ex, m, args, tys, st, fn, symargs):
    idx = field_index(args[0])
    s2 = st.fork()
    st.log.append(("save", idx))
    s2.log.append(("save", idx))
    return [(st, Enum(0, {}, "Option")), (s2, Enum(1, {1: [Opaque("stale")]}, "Option"))]


def env_noop(ex, m, args, tys, st, fn, symargs):
    return [(st, Agg([]))]


def post_update(n):
    def post(a, ret, st):
        scope = a["scope"].tag
        removes = [e[1] for e in st.log if e[0] == "remove"]
        saves = [e[1] for e in st.log if e[0] == "save"]
        # on this path the scope is decided by the path condition; accept what each scope demands
        is_global = removes != [] or (saves == [] and n == 0)
        global_ok = removes == list(range(n)) and saves == []
        local_ok = removes == [] and saves == ([n - 1] if n > 0 else [])
        return tm.ite(tm.eq(scope, I(1)), tm.B(global_ok), tm.B(local_ok))
    return post


def update_obligation(n):
    return dict(engine="B", name=f"c01_update_save_stack_{n}_groups", crates=CR, fn=("texlang", "update_save_stack", None, None),
                args=[("input", "&mut opaque ExecutionInput"), ("variable", "&opaque TypedVariable"), ("scope", "Scope"), ("value", "opaque T"), ("map_getter", "opaque F")],
                env_models=[(r"^(?:streams::)?ExecutionInput::<S>::groups$", env_groups(n)),
                            (r"^(?:streams::)?ExecutionInput::<S>::current_group_mut$", env_current_group(n)),
                            (r"^<F as Fn<\(&mut SaveStackElement<S>,\)>>::call$", env_map_getter),
                            (r"^SaveStackMap::<S, T>::remove$", env_remove),
                            (r"^SaveStackMap::<S, T>::save$", env_save),
                            (r"^<T as SupportedType>::recycle::<S>$", env_noop)],
                post=post_update(n), post_state=True, unroll=n + 2,
                witnesses=[("global scope", lambda a: tm.eq(a["scope"].tag, I(1))), ("local scope", lambda a: tm.eq(a["scope"].tag, I(0)))],
                funcs=["texlang::variable::update_save_stack (generic MIR; save-stack maps, the getter closure and recycle replaced by logging stubs)"],
                bound=f"{n} open groups, both scopes, every outcome of each remove/save: a global assignment removes the variable from the save stack of group 0..{n - 1} exactly once each and saves nothing; a local one saves into the innermost group only")


# ---------------------------------------------------------------- stubs for TypedVariable::set
def set_obligation(n):
    slot = {}

    def env_state_mut(ex, m, args, tys, st, fn, symargs):
        return [(st, Opaque("state"))]

    def env_getter(ex, m, args, tys, st, fn, symargs):
        # the variable's mutable getter (a function pointer stored in the TypedVariable): returns the storage slot
        st.log.append(("getter",))
        st.slot = Ref(Cell(Opaque("OLD")))
        return [(st, st.slot)]

    def env_replace(ex, m, args, tys, st, fn, symargs):
        r, new = args
        old = ex.deref(r)
        ex.write_ref(r, new)
        st.log.append(("replace", getattr(new, "what", repr(new))))
        return [(st, old)]

    def env_is_empty(ex, m, args, tys, st, fn, symargs):
        return [(st, tm.B(len(ex.deref(args[0]).fields) == 0))]

    def env_recycle(ex, m, args, tys, st, fn, symargs):
        st.log.append(("recycle", getattr(args[1], "what", repr(args[1]))))
        return [(st, Agg([]))]

    def env_update(ex, m, args, tys, st, fn, symargs):
        st.log.append(("update", args[2].tag, getattr(args[3], "what", repr(args[3]))))
        return [(st, Agg([]))]

    def post(a, ret, st):
        log = st.log
        stored = getattr(st, "slot", None)
        ok_store = stored is not None and getattr(stored.cell.v, "what", None) == "value: opaque T"
        if n == 0:
            ok = log == [("getter",), ("replace", "value: opaque T"), ("recycle", "OLD")]
            return tm.B(ok and ok_store)
        ok = (len(log) == 3 and log[0] == ("getter",) and log[1] == ("replace", "value: opaque T")
              and log[2][0] == "update" and log[2][2] == "OLD")
        if not (ok and ok_store):
            return tm.FALSE
        return tm.eq(log[2][1], a["scope"].tag)

    return dict(engine="B", name=f"c01_variable_set_{n}_groups", crates=CR, fn=("texlang", "set", "TypedVariable", None),
                args=[("self", "&TypedVariable"), ("input", "&mut opaque ExecutionInput"), ("scope", "Scope"), ("value", "opaque T")],
                env_models=[(r"^(?:streams::)?ExecutionInput::<S>::state_mut$", env_state_mut),
                            (r"^(?:move|copy) _\d+$", env_getter),
                            (r"^std::mem::replace::<T>$", env_replace),
                            (r"^(?:streams::)?ExecutionInput::<S>::groups$", env_groups(n)),
                            (r"^core::slice::<impl \[.*\]>::is_empty$", env_is_empty),
                            (r"^<T as SupportedType>::recycle::<S>$", env_recycle),
                            (r"^<T as SupportedType>::update_save_stack::<S>$", env_update)],
                post=post, post_state=True,
                witnesses=[("global scope", lambda a: tm.eq(a["scope"].tag, I(1)))],
                funcs=["texlang::variable::TypedVariable::set (generic MIR; the getter function pointer, mem::replace, the save stack and recycle/update_save_stack replaced by logging stubs)"],
                bound=f"{n} open groups, both scopes: the new value is stored through the variable's getter; the overwritten value goes to update_save_stack with the same scope iff a group is open, else it is recycled")


# ---------------------------------------------------------------- \global bookkeeping (prefix::Component)
CRP = ["texlang-stdlib", "texcraft-stdext"]


def comp(st):
    c = st.roots[0]  # the component *of this path* (paths are deep copies)
    while isinstance(c, Ref):
        c = c.cell.v
    return c


def post_set_scope(a, ret, st):
    c = comp(st)  # state after the call (the cell was updated in place)
    scope_after, gdv_after = c.fields[0].tag, c.fields[1]
    want = tm.ite(tm.eq(a["__gdv0__"], I(0)), a["scope"].tag, I(0))
    return tm.and_(tm.eq(scope_after, want), tm.eq(gdv_after, a["__gdv0__"]))


def post_read_and_reset(a, ret, st):
    c = comp(st)
    scope_after, gdv_after = c.fields[0].tag, c.fields[1]
    gdv, scope0 = a["__gdv0__"], a["__scope0__"]
    want_ret = tm.ite(tm.lt(gdv, I(0)), I(0), tm.ite(tm.gt(gdv, I(0)), I(1), scope0))
    want_scope = tm.ite(tm.eq(gdv, I(0)), I(0), scope0)
    return tm.and_(tm.eq(ret.tag, want_ret), tm.eq(scope_after, want_scope), tm.eq(gdv_after, gdv))


def build_component(extra):
    def f(sym, bind):
        def var(name, lo, hi):
            if sym.consts is not None:
                return I(sym.consts.get(name, 0))
            v = tm.V(name)
            sym.assumes.append(tm.and_(tm.le(I(lo), v), tm.le(v, I(hi))))
            sym.vars[name] = "i32"
            return v
        scope0 = var("scope0", 0, 1)
        gdv = var("gdv", -(1 << 31), (1 << 31) - 1)
        cell = Cell(Agg([Enum(scope0, {}, "Scope"), gdv, Opaque("tags")]))
        args = {"self": Ref(cell), "__gdv0__": gdv, "__scope0__": scope0}
        vals = [Ref(cell)]
        if extra:
            s = var("scope_arg", 0, 1)
            args["scope"] = Enum(s, {}, "Scope")
            vals.append(args["scope"])
        return args, vals
    return f


# ---------------------------------------------------------------- VM::begin_group
def env_default_elem(ex, m, args, tys, st, fn, symargs):
    return [(st, Opaque("fresh save-stack element"))]


def env_vec_push(ex, m, args, tys, st, fn, symargs):
    v = args[1]
    what = getattr(v, "what", None) or ("None" if isinstance(v, Enum) and v.tag.is_const and v.tag.val == 0 else repr(v))
    st.log.append(("push", tuple(args[0].path), what))
    return [(st, Agg([]))]


def post_vm_begin(a, ret, st):
    log = st.log
    begins = [e for e in log if e[0] == "begin"]
    pushes = [e for e in log if e[0] == "push"]
    ok = (len(log) == 4 and sorted(e[1] for e in begins) == [0, 1] and len(pushes) == 2
          and pushes[0][1] != pushes[1][1]
          and sorted(e[2] for e in pushes) == sorted(["fresh save-stack element", "None"]))
    return tm.B(ok)


# ---------------------------------------------------------------- VM::end_group
def env_fatal_error(ex, m, args, tys, st, fn, symargs):
    st.log.append(("fatal_error",))
    return [(st, Opaque("boxed error"))]


def env_vec_pop(ex, m, args, tys, st, fn, symargs):
    path = tuple(args[0].path)
    if "SaveStackElement" in m.group(0):
        st.log.append(("pop", path, "elem"))
        return [(st, Enum(1, {1: [Opaque("popped save-stack element")]}, "Option"))]
    # the font stack holds Option<Font>: the popped entry is arbitrary (a font was / was not changed in the group)
    s2 = st.fork()
    st.log.append(("pop", path, "font:some"))
    s2.log.append(("pop", path, "font:none"))
    return [(st, Enum(1, {1: [Enum(1, {1: [Opaque("saved font")]}, "Option")]}, "Option")),
            (s2, Enum(1, {1: [Enum(0, {}, "Option")]}, "Option"))]


def env_input_new(ex, m, args, tys, st, fn, symargs):
    return [(st, Opaque("input"))]


def env_restore(ex, m, args, tys, st, fn, symargs):
    st.log.append(("restore", getattr(args[0], "what", repr(args[0]))))
    return [(st, Agg([]))]


def env_font_hook(ex, m, args, tys, st, fn, symargs):
    st.log.append(("font_hook", getattr(args[1], "what", repr(args[1]))))
    return [(st, Agg([]))]


def post_vm_end(a, ret, st):
    log = st.log
    ends = [e for e in log if e[0] == "end"]
    rest = [e for e in log if e[0] != "end"]
    both_ok = ends == [("end", 0, "ok"), ("end", 1, "ok")]
    if not both_ok:
        # the command maps refused: an error is reported and nothing else is touched
        return tm.B(ret.tag.val == 1 and rest == [("fatal_error",)])
    if ret.tag.val != 0 or len(rest) < 3:
        return tm.FALSE
    ok = (rest[0][0] == "pop" and rest[0][2] == "elem" and rest[1] == ("restore", "popped save-stack element")
          and rest[2][0] == "pop" and rest[2][2].startswith("font:") and rest[2][1] != rest[0][1])
    vm = st.roots[0]
    while isinstance(vm, Ref):
        vm = vm.cell.v
    current_font = vm.fields[3].fields[6]
    if rest[2][2] == "font:some":
        ok = ok and rest[3:] == [("font_hook", "saved font")] and getattr(current_font, "what", None) == "saved font"
    else:
        ok = ok and rest[3:] == [] and getattr(current_font, "what", None) != "saved font"
    return tm.B(ok)


PROP = {
    "title": "Group scoping: local assignments undone, global ones survive (mechanism level)",
    "level_text": (
        "Mechanism level only. (i) For every history of the stated length the scoped container equals a stack-of-snapshots model "
        "(solver-decided over operation kinds, keys, values, scopes). (ii) For every number of open groups in the stated range the "
        "driver code follows the grouping protocol (MIR symbolically executed with the containers stubbed). The end-to-end statement "
        "over TeX programs is NOT machine-checked: the VM could not be symbolically executed (DESIGN.md 2.4)."),
    "level_note": (
        "Trusted: the composition argument of DESIGN.md 5 (C01); the logging stubs stand for GroupingContainer::{begin,end}_group, "
        "SaveStackMap::{save,remove}, ExecutionInput::{groups,current_group_mut} and the field getter closure; rustc MIR; z3/cvc5; Kani/CBMC and the cfg(kani) map stand-in for part (i)."),
    "explanation": "See the module docstring of props/C01.py.",
    "outside": [
        "TeX-level histories through VM::run (\\\\count, \\\\def, \\\\let, \\\\catcode, fonts, \\\\global/\\\\globaldefs prefixes): NOT decided",
        "SaveStackMap::restore (iterates a std HashMap and calls getters through function pointers) and SaveStackMap::save's keep-the-first-value rule (std HashMap::entry)",
        "which tokens may follow \\\\global and the dispatch of prefixed commands (prefix.rs process_prefixes): token-level, VM-bound; only the flag's state machine (set_scope / read_and_reset_global) is decided",
        "more than 3 open groups for the protocol obligations, histories beyond the C20 bounds",
    ],
    "assumptions": [],
    "obligations": (
        [dict(o) for o in _c20.PROP["obligations"] if "grouping" in o["name"]]
        + [
            dict(engine="B", name="c01_map_begin_group", crates=CR, fn=("texlang", "begin_group", "Map", None), args=[("self", "&mut Map")],
                 env_models=[(r"^GroupingContainer::<.*>::begin_group$", env_container_begin)], post=post_map_begin, post_state=True,
                 funcs=["texlang::command::map::Map::begin_group (MIR; the two scoped containers replaced by logging stubs)"],
                 bound="opens a group in the control-sequence map and in the active-character map, in that order, nothing else"),
            dict(engine="B", name="c01_map_end_group", crates=CR, fn=("texlang", "end_group", "Map", None), args=[("self", "&mut Map")],
                 env_models=[(r"^GroupingContainer::<.*>::end_group$", env_container_end)], post=post_map_end, post_state=True,
                 funcs=["texlang::command::map::Map::end_group (MIR; containers stubbed, each end_group returning Ok or Err arbitrarily)"],
                 bound="closes a group in both maps; Ok iff both succeed; an error of the first is returned before the second is touched"),
            update_obligation(1), update_obligation(2), update_obligation(3),
            set_obligation(0), set_obligation(2),
            dict(engine="B", name="c01_vm_end_group", crates=CR, fn=("texlang", "end_group", "VM", None), args=[("self", "&mut VM"), ("token", "opaque Token")],
                 env_models=[(r"^GroupingContainer::<.*>::end_group$", env_container_end),
                             (r"^VM::<S>::fatal_error::<.*>$", env_fatal_error),
                             (r"^Vec::<.*>::pop$", env_vec_pop),
                             (r"^(?:streams::)?ExecutionInput::<S>::new$", env_input_new),
                             (r"^SaveStackElement::<S>::restore$", env_restore),
                             (r"^<S as (?:vm::)?TexlangState>::enable_font_hook$", env_font_hook)],
                 post=post_vm_end, post_state=True,
                 funcs=["texlang::vm::VM::end_group (MIR; Map::end_group inlined from the dump; containers, the two Vec::pop, restore, fatal_error and the font hook stubbed)"],
                 bound="closing a group: if either command map refuses, an error is returned and nothing is popped; otherwise exactly one element is popped from the variable save stack and restored, one entry is popped from the (distinct) font stack, and iff it holds a font that font becomes current and the hook is called with it",
                 assumes=["the two save stacks are as deep as the command maps (established by c01_vm_begin_group): the stubbed pops return Some"]),
            dict(engine="B", name="c01_vm_begin_group", crates=CR, fn=("texlang", "begin_group", "VM", None), args=[("self", "&mut VM")],
                 env_models=[(r"^GroupingContainer::<.*>::begin_group$", env_container_begin),
                             (r"^<SaveStackElement<S> as Default>::default$", env_default_elem),
                             (r"^Vec::<.*>::push$", env_vec_push)],
                 post=post_vm_begin, post_state=True,
                 funcs=["texlang::vm::VM::begin_group (MIR; Map::begin_group inlined from the dump, containers and Vec::push stubbed)"],
                 bound="opening a group opens one group in each command map, pushes exactly one fresh element on the variable save stack and one None on the font save stack (two distinct stacks), nothing else"),
            dict(engine="B", name="c01_prefix_set_scope", crates=CRP, fn=("texlang-stdlib", "set_scope", "Component", None),
                 args=[("self", "&mut Component"), ("scope", "Scope")], build_args=build_component(True), post=post_set_scope, post_state=True,
                 witnesses=[("\\global while \\globaldefs is negative", lambda a: tm.and_(tm.lt(a["__gdv0__"], I(0)), tm.eq(a["scope"].tag, I(1))))],
                 funcs=["texlang_stdlib::prefix::Component::set_scope (private; MIR)"],
                 bound="every \\globaldefs value (i32), both requested scopes, both previous flag values: the flag is set only while \\globaldefs = 0"),
            dict(engine="B", name="c01_prefix_read_and_reset_global", crates=CRP, fn=("texlang-stdlib", "read_and_reset_global", "Component", None),
                 args=[("self", "&mut Component")], build_args=build_component(False), post=post_read_and_reset, post_state=True,
                 witnesses=[("flag set, \\globaldefs = 0", lambda a: tm.and_(tm.eq(a["__gdv0__"], I(0)), tm.eq(a["__scope0__"], I(1))))],
                 funcs=["texlang_stdlib::prefix::Component::read_and_reset_global (private; MIR)"],
                 bound="every \\globaldefs value, both flag values: returns Global for \\globaldefs > 0, Local for < 0, else the flag, which is cleared by the read - so \\global changes the scope of exactly one assignment"),
        ]),
}
