"""C02, substitution: Macro::perform_replacement from MIR on replacement texts of a fixed structure (token values symbolic)."""
import itertools

from mir2smt import term as tm
from mir2smt.term import I
from mir2smt.execmir import Agg, Enum, Ref, Cell
from mir2smt import models_iter  # noqa: F401  (registers the iterator models)
from mir2smt.models import _struct_eq


def tok(sym, name):
    if sym.consts is not None:
        k = I(sym.consts.get(name + "_kind", 9))
        c = I(sym.consts.get(name + "_id", 0))
    else:
        k = tm.V(name + "_kind")
        sym.assumes.append(tm.and_(tm.le(I(0), k), tm.le(k, I(10))))
        sym.vars[name + "_kind"] = "enum Value"
        c = tm.V(name + "_id")
        sym.assumes.append(tm.and_(tm.le(I(0), c), tm.le(c, I(1000))))
        sym.vars[name + "_id"] = "i32"
    return Agg([Enum(k, {}, "Value"), c])


def build(structure, arg_lens, prefix_len):
    """structure: tuple of ('T', n) token runs and ('P', i) parameters."""
    def f(sym, bind):
        reps, rep_desc = [], []
        for j, (kind, x) in enumerate(structure):
            if kind == "T":
                toks = [tok(sym, f"r{j}_{t}") for t in range(x)]
                reps.append(Enum(I(0), {0: [Agg(toks)]}, "Replacement"))
                rep_desc.append(("T", toks))
            else:
                reps.append(Enum(I(1), {1: [I(x)]}, "Replacement"))
                rep_desc.append(("P", x))
        args = [[tok(sym, f"a{i}_{t}") for t in range(n)] for i, n in enumerate(arg_lens)]
        prefix = [tok(sym, f"s{t}") for t in range(prefix_len)]
        arg_refs = Agg([Ref(Cell(Agg(list(a)))) for a in args])
        result = Ref(Cell(Agg(list(prefix))))
        return dict(reps=rep_desc, args=args, prefix=prefix), [Ref(Cell(Agg(reps))), Ref(Cell(arg_refs)), result]
    return f


def post(a, ret, st):
    res = st.roots[2]
    while isinstance(res, Ref):
        res = res.cell.v
    expansion = []
    for kind, x in a["reps"]:
        # a run of replacement tokens is stored reversed (texlang-stdlib's \def reverses each run once, at definition time)
        expansion += list(reversed(x)) if kind == "T" else a["args"][x]
    # the expansion stack is read from its end: what was already on it stays below, the expansion lies reversed on top
    want = list(a["prefix"]) + list(reversed(expansion))
    if len(res.fields) != len(want):
        return tm.FALSE
    return tm.and_(tm.eq(ret, I(len(expansion))), *[_struct_eq(x, y) for x, y in zip(res.fields, want)])


def ob(structure, arg_lens, prefix_len=1, tier="quick"):
    nm = "".join(f"T{x}" if k == "T" else f"P{x}" for k, x in structure) or "empty"
    name = f"c02_replacement_{nm}_args" + "_".join(str(n) for n in arg_lens)
    return dict(engine="B", name=name, crates=["texlang"], fn=("texlang", "perform_replacement", "Macro", None), args=[], tier=tier,
                build_args=build(structure, arg_lens, prefix_len), unroll=12, post=post, post_state=True,
                funcs=["texlang::texmacro::Macro::perform_replacement (private; MIR; slices, Vec::extend and reverse iteration modelled)"],
                bound=(f"replacement text of structure {nm} (Tn: a run of n tokens, Pi: parameter #i+1), arguments of {list(arg_lens)} tokens, every token symbolic, "
                       f"{prefix_len} token(s) already on the expansion stack"))


def family(tier_quick_max=3):
    out, seen = [], set()
    pieces = [("T", 0), ("T", 1), ("T", 2), ("P", 0), ("P", 1)]
    for n in range(0, 4):
        for structure in itertools.product(pieces, repeat=n):
            for arg_lens in ((0, 2), (2, 1), (1, 0)):
                o = ob(structure, arg_lens, tier="quick" if n <= 2 else "thorough")
                if o["name"] not in seen:
                    seen.add(o["name"])
                    out.append(o)
    return out


OBLIGATIONS = family()


# ---------------------------------------------------------------- Macro::call at driver level
BEGIN, END = 0, 1


def call_obligation(arg_specs, structure, tier="quick"):
    """arg_specs: per parameter (n tokens pushed by the argument scanner, trim flag it returns). Macro::call runs from its
    generic MIR; the stream side (prefix matching, the argument scanner, the token-buffer pool, the hook) is stubbed."""
    from mir2smt.execmir import Opaque

    def build(sym, bind):
        reps, rep_desc = [], []
        for j, (kind, x) in enumerate(structure):
            if kind == "T":
                toks = [tok(sym, f"r{j}_{t}") for t in range(x)]
                reps.append(Enum(I(0), {0: [Agg(toks)]}, "Replacement"))
                rep_desc.append(("T", toks))
            else:
                reps.append(Enum(I(1), {1: [I(x)]}, "Replacement"))
                rep_desc.append(("P", x))
        scanned = [[tok(sym, f"a{i}_{t}") for t in range(n)] for i, (n, _) in enumerate(arg_specs)]
        prefix = [tok(sym, "s0")]
        macro = Agg([Agg([]), Agg([Enum(I(0), {}, "Parameter") for _ in arg_specs]), Agg(reps)])
        stack = Ref(Cell(Agg(list(prefix))))
        a = dict(reps=rep_desc, scanned=scanned, prefix=prefix, stack=stack, specs=arg_specs)
        return a, [Ref(Cell(macro)), tok(sym, "macro_token"), Ref(Cell(Opaque("input")))]

    def env_prefix(ex, m, args, tys, st, fn, symargs):
        return [(st, Enum(0, {0: [tm.TRUE]}, "Result"))]

    def env_unexpanded(ex, m, args, tys, st, fn, symargs):
        return [(st, Ref(Cell(Opaque("unexpanded"))))]

    def env_checkout(ex, m, args, tys, st, fn, symargs):
        return [(st, Agg([]))]

    def env_parse_argument(ex, m, args, tys, st, fn, symargs):
        i = args[2]
        if not i.is_const:
            raise ValueError("symbolic parameter index")
        i = int(i.val)
        st.log.append(("arg", i))
        buf = ex.deref(args[3])
        ex.write_ref(args[3], Agg(list(buf.fields) + list(symargs["scanned"][i])))
        return [(st, Enum(0, {0: [tm.B(bool(symargs["specs"][i][1]))]}, "Result"))]

    def env_stack(ex, m, args, tys, st, fn, symargs):
        r = [x for x in st.roots if False]
        return [(st, st.c02_stack)] if hasattr(st, "c02_stack") else [(st, symargs["stack"])]

    def env_hook(ex, m, args, tys, st, fn, symargs):
        st.log.append(("hook", args[3], args[4]))
        return [(st, Agg([]))]

    def env_return(ex, m, args, tys, st, fn, symargs):
        st.log.append(("returned",))
        return [(st, Agg([]))]

    def post(a, ret, st):
        if not (ret.tag.is_const and ret.tag.val == 0):
            return tm.FALSE
        res = a["stack"]
        while isinstance(res, Ref):
            res = res.cell.v
        args = []
        for (n, trim), toks in zip(a["specs"], a["scanned"]):
            args.append(toks[1:-1] if trim else toks)
        expansion = []
        for kind, x in a["reps"]:
            expansion += list(reversed(x)) if kind == "T" else args[x]
        want = list(a["prefix"]) + list(reversed(expansion))
        order_ok = [e[1] for e in st.log if e[0] == "arg"] == list(range(len(a["specs"])))
        if len(res.fields) != len(want) or not order_ok or ("returned",) not in st.log:
            return tm.FALSE
        return tm.and_(*[_struct_eq(x, y) for x, y in zip(res.fields, want)])

    nm = "".join(f"T{x}" if k == "T" else f"P{x}" for k, x in structure)
    name = "c02_macro_call_" + "_".join(f"{n}{'t' if t else 'k'}" for n, t in arg_specs) + "_" + nm
    return dict(engine="B", name=name, crates=["texlang"], fn=("texlang", "call", "Macro", None), args=[], tier=tier, build_args=build, unroll=12,
                env_models=[(r"^remove_tokens_from_stream::<.*>$", env_prefix), (r"^(?:streams::)?ExpansionInput::<.*>::unexpanded$", env_unexpanded),
                            (r"^(?:streams::)?ExpansionInput::<.*>::checkout_token_buffer$", env_checkout),
                            (r"^(?:texmacro::)?Parameter::parse_argument::<.*>$", env_parse_argument),
                            (r"^(?:streams::)?ExpansionInput::<.*>::expansions(?:_mut)?$", env_stack),
                            (r"^<S as (?:vm::)?TexlangState>::post_macro_expansion_hook$", env_hook),
                            (r"^(?:streams::)?ExpansionInput::<.*>::return_token_buffer$", env_return)],
                post=post, post_state=True,
                funcs=["texlang::texmacro::Macro::call (generic MIR; prefix matching, the argument scanner, the token-buffer pool and the expansion hook replaced by stubs), Macro::perform_replacement (MIR)"],
                bound=(f"a macro with {len(arg_specs)} parameter(s) whose scanner pushes {[n for n, _ in arg_specs]} tokens and answers 'strip the outer braces' = {[bool(t) for _, t in arg_specs]}, "
                       f"replacement text {nm}, every token symbolic: the expansion pushed is the replacement text with #i replaced by argument i without its outer braces when the scanner said so, "
                       "arguments are scanned in order, what was on the expansion stack stays below"),
                assumes=["the argument scanner is a stub (its delimited form is decided separately); the expansion stack is modelled as the Vec that expansions()/expansions_mut() return"])


def call_family():
    out = []
    for specs, structure in [
        (((1, 0),), (("P", 0),)),
        (((2, 1),), (("P", 0),)),
        (((3, 1),), (("T", 1), ("P", 0), ("T", 1))),
        (((1, 0), (3, 1)), (("P", 1), ("P", 0))),
        (((3, 1), (2, 0)), (("P", 0), ("T", 2), ("P", 1), ("P", 0))),
        (((2, 1), (2, 1), (1, 0)), (("P", 2), ("P", 1), ("P", 0))),
        (((0, 0), (4, 1)), (("T", 1), ("P", 1))),
    ]:
        out.append(call_obligation(specs, structure))
    return out


OBLIGATIONS = OBLIGATIONS + call_family()


# ---------------------------------------------------------------- parse_undelimited_argument at driver level
def undelimited_obligation(k, tier="quick"):
    from mir2smt.execmir import Opaque

    def build(sym, bind):
        def kind(name):
            if sym.consts is not None:
                return I(sym.consts.get(name, 9))
            v = tm.V(name)
            sym.assumes.append(tm.and_(tm.le(I(0), v), tm.le(v, I(10))))
            sym.vars[name] = "enum Value"
            return v
        kinds = [kind(f"kind{i}") for i in range(k)]
        pk = kind("prefix_kind")
        result = Ref(Cell(Agg([Agg([Enum(pk, {}, "Value"), I(1000)])])))
        return dict(kinds=kinds, result=result), [Ref(Cell(Opaque("input"))), I(1), result]

    def env_spaces(ex, m, args, tys, st, fn, symargs):
        return [(st, Enum(0, {0: [Agg([])]}, "Result"))]

    def env_unexpanded(ex, m, args, tys, st, fn, symargs):
        return [(st, Ref(Cell(Opaque("unexpanded"))))]

    def env_next_token(ex, m, args, tys, st, fn, symargs):
        i = sum(1 for e in st.log if e[0] == "token")
        if i >= k:
            st.log.append(("end_of_input",))
            return [(st, Enum(1, {1: [Agg([])]}, "Result"))]
        st.log.append(("token", i))
        return [(st, Enum(0, {0: [Agg([Enum(symargs["kinds"][i], {}, "Value"), I(i)])]}, "Result"))]

    def post(a, ret, st):
        consumed = sum(1 for e in st.log if e[0] == "token")
        res = st.roots[2]  # the buffer of *this* path (forks copy it)
        while isinstance(res, Ref):
            res = res.cell.v
        kinds = a["kinds"]
        ids = [x.fields[1] for x in res.fields]
        # reference scan (TeX.2021.392-399 for an undelimited parameter; leading spaces are skipped by the stubbed parser)
        cases = []
        not_begin = tm.not_(tm.eq(kinds[0], I(BEGIN)))
        cases.append((not_begin, 1, [0], False))
        depth = I(0)
        open_ = tm.eq(kinds[0], I(BEGIN))
        still = open_
        for j in range(1, k):
            closes = tm.and_(still, tm.eq(kinds[j], I(END)), tm.eq(depth, I(0)))
            cases.append((closes, j + 1, list(range(1, j)), False))
            depth = tm.add(depth, tm.ite(tm.eq(kinds[j], I(BEGIN)), I(1), tm.ite(tm.eq(kinds[j], I(END)), I(-1), I(0))))
            still = tm.and_(still, tm.not_(closes))
        cases.append((still, k, None, True))
        disj = []
        for cond, n_consumed, idxs, is_err in cases:
            if is_err:
                ok = (ret.tag.val == 1) and consumed == k and st.log[-1] == ("end_of_input",)
            else:
                ok = (ret.tag.val == 0) and consumed == n_consumed and len(ids) == 1 + len(idxs) and ids[0] == I(1000) and all(ids[1 + t] == I(idxs[t]) for t in range(len(idxs)))
            if ok:
                disj.append(cond)
        return tm.or_(*disj) if disj else tm.FALSE

    return dict(engine="B", name=f"c02_undelimited_argument_k{k}", crates=["texlang"], fn=("texlang", "parse_undelimited_argument", "Parameter", None), args=[], tier=tier,
                build_args=build, unroll=k + 3,
                env_models=[(r"^<(?:parse::)?SpacesUnexpanded as (?:parse::)?Parsable>::parse::<.*>$", env_spaces),
                            (r"^(?:streams::)?ExpansionInput::<.*>::unexpanded$", env_unexpanded),
                            (r"^<.* as (?:vm::|streams::)?TokenStream>::next_or_err::<.*>$", env_next_token)],
                post=post, post_state=True,
                witnesses=[("a braced argument", lambda a: tm.and_(tm.eq(a["kinds"][0], I(BEGIN)), tm.eq(a["kinds"][k - 1], I(END)), *[tm.gt(x, I(1)) for x in a["kinds"][1:k - 1]]))] if k >= 2 else [],
                funcs=["texlang::texmacro::Parameter::parse_undelimited_argument and parse::finish_parsing_balanced_tokens (generic MIR; token stream and the space-skipping parser replaced by stubs, Vec modelled)"],
                bound=(f"a stream of {k} tokens of arbitrary kinds, one token of an earlier argument already in the shared buffer: a non-brace token is the whole argument; a left brace opens a group whose contents "
                       "(without the outer braces) are the argument up to the matching right brace; nothing else is consumed; the earlier token is untouched; running out of input is the only error"),
                assumes=["SpacesUnexpanded::parse (skipping blanks before the argument) is a stub returning Ok"])


OBLIGATIONS = OBLIGATIONS + [undelimited_obligation(k) for k in (1, 2, 3, 4, 5, 6, 7)] + [undelimited_obligation(k, tier="thorough") for k in (8, 9)]
