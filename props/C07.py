"""C07 — conditionals: condition arithmetic decided from MIR (engine B)."""
from mir2smt import term as tm
from mir2smt.term import I
from mir2smt.execmir import Enum
from mir2smt.spec import result_is


def env_parse_i32(ex, m, args, tys, st, fn, symargs):
    """Stub for `i32::parse(input)`: the scanner returns an arbitrary i32 (named `n`)."""
    if "__consts__" in symargs:  # concrete replay of a solver model
        n = I(symargs["__consts__"].get("n", 0))
        symargs["n"] = n
        return [(st, Enum(0, {0: [n]}, "Result"))]
    n = tm.V("n")
    symargs["n"] = n
    st.assume(tm.in_range(n, 32, True))
    return [(st, Enum(0, {0: [n]}, "Result"))]


def env_parse_relation(ex, m, args, tys, st, fn, symargs):
    """Stub for `<(i32, Ordering, i32)>::parse(input)`: two arbitrary integers and an arbitrary relation
    (texlang::parse::Ordering wraps std::cmp::Ordering: Less = -1, Equal = 0, Greater = 1)."""
    from mir2smt.execmir import Agg
    if "__consts__" in symargs:
        c = symargs["__consts__"]
        a, b, o = I(c.get("a", 0)), I(c.get("b", 0)), I(c.get("rel", 0))
    else:
        a, b, o = tm.V("a"), tm.V("b"), tm.V("rel")
        st.assume(tm.and_(tm.in_range(a, 32, True), tm.in_range(b, 32, True), tm.le(I(-1), o), tm.le(o, I(1))))
    symargs.update(a=a, b=b, rel=o)
    return [(st, Enum(0, {0: [Agg([a, Agg([Enum(o, {}, "Ordering")]), b])]}, "Result"))]


def post_ifnum(a, ret):
    x, y, o = a["a"], a["b"], a["rel"]
    want = tm.or_(tm.and_(tm.lt(x, y), tm.eq(o, I(-1))), tm.and_(tm.eq(x, y), tm.eq(o, I(0))), tm.and_(tm.gt(x, y), tm.eq(o, I(1))))
    return result_is(ret, tm.TRUE, lambda p: tm.or_(tm.and_(p, want), tm.and_(tm.not_(p), tm.not_(want))))


PROP = {
    "level_text": 'Only the \\ifodd condition is decided (every i32, scanner stubbed). Branch skipping, \\ifcase/\\or/\\else/\\fi, \\ifnum, nesting and \\expandafter/\\noexpand are VM-bound and NOT decided.',
    "title": "Conditionals deliver only the selected branch; \\expandafter acts on one token",
    "explanation": "Engine B decides the condition of \\ifodd for every 32-bit operand from the MIR of IfOdd::evaluate, with the integer scanner replaced by a stub that returns an arbitrary i32.",
    "outside": [
        "branch skipping (false_case, \\or, \\else, \\fi over token streams), \\ifcase, nesting, \\let-aliased conditionals, \\expandafter / \\noexpand: these run on the VM's token streams, whose construction (interner, command maps, tracer: std HashMap/BTreeMap) is beyond what CBMC finished in this sandbox - NOT decided here",
        "\\ifnum: scanning of the two numbers and of the relation character (<, =, >) is stubbed; only the comparison is decided",
    ],
    "assumptions": ["i32::parse(input) is stubbed: returns Ok(n) for an arbitrary i32 n (its own behaviour is the subject of C06)"],
    "obligations": [
        dict(engine="B", name="c07_ifnum_condition", crates=["texlang-stdlib"], fn=("texlang-stdlib", "evaluate", "IfNum", "Condition"),
             args=[("input", "opaque ExpansionInput")],
             env_models=[(r"^<\(i32, (?:[a-z_]+::)*Ordering, i32\) as (?:[a-z_]+::)*Parsable>::parse::<.*>$", env_parse_relation)],
             post=post_ifnum,
             witnesses=[("a = b with '>'", lambda a: tm.and_(tm.eq(tm.V("a"), tm.V("b")), tm.eq(tm.V("rel"), I(1)))),
                        ("extreme operands", lambda a: tm.and_(tm.eq(tm.V("a"), I(-(1 << 31))), tm.eq(tm.V("b"), I((1 << 31) - 1)), tm.eq(tm.V("rel"), I(-1))))],
             funcs=["texlang_stdlib::conditional::<IfNum as Condition<S>>::evaluate (generic MIR; the (number, relation, number) scanner stubbed)"],
             bound="every pair of i32 operands and each of the three relations: \\ifnum a<b, a=b, a>b is true exactly when the relation holds (TeX.2021.503)"),
        dict(engine="B", name="c07_ifodd_condition", crates=["texlang-stdlib"], fn=("texlang-stdlib", "evaluate", "IfOdd", "Condition"),
             args=[("input", "opaque ExpansionInput")],
             env_models=[(r"^<i32 as (?:[a-z_]+::)*Parsable>::parse::<.*>$", env_parse_i32)],
             post=lambda a, ret: result_is(ret, tm.TRUE, lambda p: tm.or_(tm.and_(p, tm.eq(tm.emod(a["n"], I(2)), I(1))), tm.and_(tm.not_(p), tm.eq(tm.emod(a["n"], I(2)), I(0))))),
             witnesses=[("negative odd operand", lambda a: tm.eq(tm.V("n"), I(-3))), ("i32::MIN", lambda a: tm.eq(tm.V("n"), I(-(1 << 31))))],
             funcs=["texlang_stdlib::conditional::<IfOdd as Condition<S>>::evaluate (generic MIR)"],
             bound="every i32 operand: \\ifodd is true exactly for odd numbers, negative ones included (TeX.2021.504)"),
    ],
}
