"""C07 — conditionals: condition arithmetic decided from MIR (engine B)."""
from mir2smt import term as tm
from mir2smt.term import I
from mir2smt.execmir import Enum
from mir2smt.spec import result_is


def env_parse_i32(ex, m, args, tys, st, fn, symargs):
    """Stub for `i32::parse(input)`: the scanner returns an arbitrary i32 (named `n`)."""
    if "__consts__" in symargs:  # concrete replay of a solver model
        n = I(symargs["__consts__"].get("n", 0))
        symargs["n"] = n
        return [(st, Enum(0, {0: [n]}, "Result"))]
    n = tm.V("n")
    symargs["n"] = n
    st.assume(tm.in_range(n, 32, True))
    return [(st, Enum(0, {0: [n]}, "Result"))]


PROP = {
    "level_text": 'Only the \\ifodd condition is decided (every i32, scanner stubbed). Branch skipping, \\ifcase/\\or/\\else/\\fi, \\ifnum, nesting and \\expandafter/\\noexpand are VM-bound and NOT decided.',
    "title": "Conditionals deliver only the selected branch; \\expandafter acts on one token",
    "explanation": "Engine B decides the condition of \\ifodd for every 32-bit operand from the MIR of IfOdd::evaluate, with the integer scanner replaced by a stub that returns an arbitrary i32.",
    "outside": [
        "branch skipping (false_case, \\or, \\else, \\fi over token streams), \\ifcase, nesting, \\let-aliased conditionals, \\expandafter / \\noexpand: these run on the VM's token streams, whose construction (interner, command maps, tracer: std HashMap/BTreeMap) is beyond what CBMC finished in this sandbox - NOT decided here",
        "\\ifnum: its relation is parsed into a tuple by a generic Parsable impl that the MIR translator does not support",
    ],
    "assumptions": ["i32::parse(input) is stubbed: returns Ok(n) for an arbitrary i32 n (its own behaviour is the subject of C06)"],
    "obligations": [
        dict(engine="B", name="c07_ifodd_condition", crates=["texlang-stdlib"], fn=("texlang-stdlib", "evaluate", "IfOdd", "Condition"),
             args=[("input", "opaque ExpansionInput")],
             env_models=[(r"^<i32 as (?:[a-z_]+::)*Parsable>::parse::<.*>$", env_parse_i32)],
             post=lambda a, ret: result_is(ret, tm.TRUE, lambda p: tm.or_(tm.and_(p, tm.eq(tm.emod(a["n"], I(2)), I(1))), tm.and_(tm.not_(p), tm.eq(tm.emod(a["n"], I(2)), I(0))))),
             witnesses=[("negative odd operand", lambda a: tm.eq(tm.V("n"), I(-3))), ("i32::MIN", lambda a: tm.eq(tm.V("n"), I(-(1 << 31))))],
             funcs=["texlang_stdlib::conditional::<IfOdd as Condition<S>>::evaluate (generic MIR)"],
             bound="every i32 operand: \\ifodd is true exactly for odd numbers, negative ones included (TeX.2021.504)"),
    ],
}
