"""C07 — conditionals: condition arithmetic decided from MIR (engine B)."""
from mir2smt import term as tm
from mir2smt.term import I
from mir2smt.execmir import Enum
from mir2smt.spec import result_is


def env_parse_i32(ex, m, args, tys, st, fn, symargs):
    """Stub for `i32::parse(input)`: the scanner returns an arbitrary i32 (named `n`)."""
    if "__consts__" in symargs:  # concrete replay of a solver model
        n = I(symargs["__consts__"].get("n", 0))
        symargs["n"] = n
        return [(st, Enum(0, {0: [n]}, "Result"))]
    n = tm.V("n")
    symargs["n"] = n
    st.assume(tm.in_range(n, 32, True))
    return [(st, Enum(0, {0: [n]}, "Result"))]


def env_parse_relation(ex, m, args, tys, st, fn, symargs):
    """Stub for `<(i32, Ordering, i32)>::parse(input)`: two arbitrary integers and an arbitrary relation
    (texlang::parse::Ordering wraps std::cmp::Ordering: Less = -1, Equal = 0, Greater = 1)."""
    from mir2smt.execmir import Agg
    if "__consts__" in symargs:
        c = symargs["__consts__"]
        a, b, o = I(c.get("a", 0)), I(c.get("b", 0)), I(c.get("rel", 0))
    else:
        a, b, o = tm.V("a"), tm.V("b"), tm.V("rel")
        st.assume(tm.and_(tm.in_range(a, 32, True), tm.in_range(b, 32, True), tm.le(I(-1), o), tm.le(o, I(1))))
    symargs.update(a=a, b=b, rel=o)
    return [(st, Enum(0, {0: [Agg([a, Agg([Enum(o, {}, "Ordering")]), b])]}, "Result"))]


def post_ifnum(a, ret):
    x, y, o = a["a"], a["b"], a["rel"]
    want = tm.or_(tm.and_(tm.lt(x, y), tm.eq(o, I(-1))), tm.and_(tm.eq(x, y), tm.eq(o, I(0))), tm.and_(tm.gt(x, y), tm.eq(o, I(1))))
    return result_is(ret, tm.TRUE, lambda p: tm.or_(tm.and_(p, want), tm.and_(tm.not_(p), tm.not_(want))))


# ---------------------------------------------------------------- false_case: skipping the branch not taken
IF, ELSE, OR, FI = 1, 2, 3, 4  # tag values given to Tags fields 0..3 (if_tag, else_tag, or_tag, fi_tag) by the stub


def false_case_obligation(k):
    from mir2smt.execmir import Agg, Ref, Cell, Opaque

    def build(sym, bind):
        def var(name, lo, hi):
            if sym.consts is not None:
                return I(sym.consts.get(name, lo))
            v = tm.V(name)
            sym.assumes.append(tm.and_(tm.le(I(lo), v), tm.le(v, I(hi))))
            sym.vars[name] = "i32"
            return v
        kinds = [var(f"kind{i}", 9, 10) for i in range(k)]      # an ordinary character or a command reference
        has_tag = [var(f"has_tag{i}", 0, 1) for i in range(k)]  # get_tag: None or Some
        tags = [var(f"tag{i}", 1, 5) for i in range(k)]         # if / else / or / fi / some other tag
        cls = [tm.ite(tm.and_(tm.eq(kinds[i], I(10)), tm.eq(has_tag[i], I(1))), tags[i], I(0)) for i in range(k)]
        return {"kinds": kinds, "has_tag": has_tag, "tags": tags, "cls": cls}, [Opaque("original token"), Ref(Cell(Opaque("input")))]

    def env_opaque(name):
        def f(ex, m, args, tys, st, fn, symargs):
            return [(st, Opaque(name))]
        return f

    def env_next_token(ex, m, args, tys, st, fn, symargs):
        i = sum(1 for e in st.log if e[0] == "token")
        if i >= k:
            st.log.append(("end_of_input",))
            return [(st, Enum(1, {1: [Agg([])]}, "Result"))]
        st.log.append(("token", i))
        return [(st, Enum(0, {0: [Agg([Enum(symargs["kinds"][i], {10: [Opaque(f"command ref {i}")]}, "Value"), I(i)])]}, "Result"))]

    def env_get_tag(ex, m, args, tys, st, fn, symargs):
        i = sum(1 for e in st.log if e[0] == "token") - 1
        cr = ex.deref(args[1])
        st.log.append(("get_tag", i, getattr(cr, "what", repr(cr))))
        return [(st, Enum(symargs["has_tag"][i], {1: [Agg([symargs["tags"][i]])]}, "Option"))]

    def env_component(ex, m, args, tys, st, fn, symargs):
        return [(st, Ref(Cell(Agg([Opaque("branches"), Agg([Agg([I(IF)]), Agg([I(ELSE)]), Agg([I(OR)]), Agg([I(FI)])])]))))]

    def env_push_branch(ex, m, args, tys, st, fn, symargs):
        st.log.append(("push_branch", args[1].fields[1].tag))
        return [(st, Agg([]))]

    def post(a, ret, st):
        cls = a["cls"]
        consumed = sum(1 for e in st.log if e[0] == "token")
        pushes = [e for e in st.log if e[0] == "push_branch"]
        # every command reference is looked up with its own payload
        for e in st.log:
            if e[0] == "get_tag" and e[2] != f"command ref {e[1]}":
                return tm.FALSE
        depth = I(0)
        stops = []   # stops[i]: the scan ends at token i
        elses = []
        for i in range(k):
            is_else = tm.and_(tm.eq(cls[i], I(ELSE)), tm.eq(depth, I(0)))
            is_fi = tm.and_(tm.eq(cls[i], I(FI)), tm.eq(depth, I(0)))
            stops.append(tm.or_(is_else, is_fi))
            elses.append(is_else)
            depth = tm.add(depth, tm.ite(tm.eq(cls[i], I(IF)), I(1), tm.ite(tm.eq(cls[i], I(FI)), I(-1), I(0))))
        if ret.tag.val == 1:
            return tm.and_(tm.B(consumed == k and st.log[-1] == ("end_of_input",) and not pushes), *[tm.not_(s) for s in stops])
        if consumed == 0:
            return tm.FALSE
        i = consumed - 1
        ok = tm.and_(stops[i], *[tm.not_(s) for s in stops[:i]])
        if pushes:
            # an \\else at depth 0: the else-branch is entered (BranchKind::Else has discriminant 1 in source order)
            return tm.and_(ok, elses[i], tm.B(len(pushes) == 1))
        return tm.and_(ok, tm.not_(elses[i]))

    return dict(engine="B", name=f"c07_false_case_skips_{k}_tokens", crates=["texlang-stdlib", "texlang"], fn=("texlang-stdlib", "false_case", None, None),
                args=[], build_args=build, unroll=k + 3, post=post, post_state=True,
                env_models=[(r"^ExpansionInput::<S>::unexpanded$", env_opaque("stream")),
                            (r"^<UnexpandedStream<S> as (?:[a-z_]+::)*TokenStream>::next_or_err::<.*>$", env_next_token),
                            (r"^<ExpansionInput<S> as (?:[a-z_]+::)*TokenStream>::commands_map$", env_opaque("commands map")),
                            (r"^(?:[a-z_]+::)*Map::<S>::get_tag$", env_get_tag),
                            (r"^<ExpansionInput<S> as (?:[a-z_]+::)*TokenStream>::state$", env_opaque("state")),
                            (r"^<S as (?:[a-z_]+::)*HasComponent<conditional::Component>>::component$", env_component),
                            (r"^push_branch::<S>$", env_push_branch)],
                witnesses=[("nested conditional skipped, then \\else", lambda a: tm.and_(tm.eq(a["cls"][0], I(IF)), tm.eq(a["cls"][1], I(ELSE)), tm.eq(a["cls"][2], I(FI)), tm.eq(a["cls"][3], I(ELSE)))),
                           ("\\fi closes the conditional", lambda a: tm.and_(tm.eq(a["cls"][0], I(0)), tm.eq(a["cls"][1], I(FI))))] if k >= 4 else [],
                funcs=["texlang_stdlib::conditional::false_case (generic MIR; token stream, command-map tag lookup, component access and push_branch replaced by stubs)"],
                bound=(f"a stream of {k} tokens, each an ordinary character or a command reference whose tag is arbitrary (\\if.., \\else, \\or, \\fi, another tag, or none): "
                       "skipping consumes exactly the tokens up to the first \\else or \\fi at nesting depth 0 (nested conditionals, whatever they contain, are skipped whole), "
                       "enters the else-branch exactly in the \\else case, and fails only at the end of the input"))


def ifcase_obligation(k):
    from mir2smt.execmir import Agg, Ref, Cell, Opaque
    base = false_case_obligation(k)
    env = dict((pat, f) for pat, f in base["env_models"])

    def build(sym, bind):
        a, vals = base["build_args"](sym, bind)
        if sym.consts is not None:
            a["n"] = I(sym.consts.get("n", 0))
        else:
            a["n"] = tm.V("n")
            sym.assumes.append(tm.in_range(a["n"], 32, True))
            sym.vars["n"] = "i32"
        return a, vals

    def env_parse_n(ex, m, args, tys, st, fn, symargs):
        st.log.append(("parse_number",))
        return [(st, Enum(0, {0: [symargs["n"]]}, "Result"))]

    def env_push_branch(ex, m, args, tys, st, fn, symargs):
        st.log.append(("push_branch", args[1].fields[1].tag.val))
        return [(st, Agg([]))]

    def post(a, ret, st):
        cls, n = a["cls"], a["n"]
        consumed = sum(1 for e in st.log if e[0] == "token")
        pushes = [e[1] for e in st.log if e[0] == "push_branch"]
        SWITCH, ELSE_KIND = 2, 1  # BranchKind discriminants in source order: True, Else, Switch
        if consumed == 0 and ret.tag.val == 0:
            # case 0 is selected at once
            return tm.and_(tm.eq(n, I(0)), tm.B(pushes == [SWITCH]))
        depth, ors = I(0), I(0)
        stop_or, stop_else, stop_fi = [], [], []
        for i in range(k):
            at0 = tm.eq(depth, I(0))
            is_or = tm.and_(tm.eq(cls[i], I(OR)), at0)
            stop_or.append(tm.and_(is_or, tm.eq(tm.add(ors, I(1)), n)))
            stop_else.append(tm.and_(tm.eq(cls[i], I(ELSE)), at0))
            stop_fi.append(tm.and_(tm.eq(cls[i], I(FI)), at0))
            ors = tm.add(ors, tm.ite(is_or, I(1), I(0)))
            depth = tm.add(depth, tm.ite(tm.eq(cls[i], I(IF)), I(1), tm.ite(tm.eq(cls[i], I(FI)), I(-1), I(0))))
        stops = [tm.or_(x, y, z) for x, y, z in zip(stop_or, stop_else, stop_fi)]
        nonzero = tm.ne(n, I(0))
        if ret.tag.val == 1:
            return tm.and_(nonzero, tm.B(consumed == k and not pushes), *[tm.not_(s) for s in stops])
        i = consumed - 1
        first = tm.and_(nonzero, stops[i], *[tm.not_(s) for s in stops[:i]])
        if pushes == [SWITCH]:
            return tm.and_(first, stop_or[i])       # the n-th \\or at depth 0: case n is selected
        if pushes == [ELSE_KIND]:
            return tm.and_(first, stop_else[i], tm.not_(stop_or[i]))   # out of range (or negative): \\else
        if pushes == []:
            return tm.and_(first, stop_fi[i], tm.not_(stop_or[i]), tm.not_(stop_else[i]))
        return tm.FALSE

    env["^<i32 as (?:[a-z_]+::)*Parsable>::parse::<.*>$"] = env_parse_n
    env["^push_branch::<S>$"] = env_push_branch
    return dict(base, max_paths=200000, name=f"c07_ifcase_skips_{k}_tokens", fn=("texlang-stdlib", "if_case_primitive_fn", None, None), build_args=build,
                env_models=list(env.items()), post=post,
                witnesses=[("case 2 selected after a nested conditional", lambda a: tm.and_(tm.eq(a["n"], I(2)), tm.eq(a["cls"][0], I(OR)), tm.eq(a["cls"][1], I(IF)), tm.eq(a["cls"][2], I(FI)), tm.eq(a["cls"][3], I(OR)))),
                           ("negative case number falls to \\else", lambda a: tm.and_(tm.lt(a["n"], I(0)), tm.eq(a["cls"][0], I(OR)), tm.eq(a["cls"][1], I(ELSE))))] if k >= 4 else [],
                funcs=["texlang_stdlib::conditional::if_case_primitive_fn (generic MIR; number scanner, token stream, tag lookup, component and push_branch stubbed)"],
                bound=(f"every case number (i32) and every stream of {k} tokens with arbitrary tags: case 0 is selected at once; otherwise text is skipped up to the n-th \\or at depth 0 "
                       "(case n), or to the first \\else at depth 0 (out of range or negative n selects \\else), or to the closing \\fi; nested conditionals are skipped whole (TeX.2021.509)"))


# ---------------------------------------------------------------- \\or and \\else met while a branch is being delivered: skip to the matching \\fi
def skip_to_fi_obligation(which, k, stack_len=1):
    """which: 'or' (valid inside a switch only) or 'else' (valid in a true branch or a switch). The branch stack
    (RefCell<Vec<Branch>> in the component) is modelled, so pop_branch runs from the dump."""
    from mir2smt.execmir import Agg, Ref, Cell, Opaque
    from mir2smt import models_iter  # noqa: F401
    base = false_case_obligation(k)
    TRUE_B, ELSE_B, SWITCH_B = 0, 1, 2  # BranchKind discriminants (source order)

    def build(sym, bind):
        a, vals = base["build_args"](sym, bind)
        kinds = []
        for j in range(stack_len):
            if sym.consts is not None:
                kinds.append(I(sym.consts.get(f"branch_kind{j}", SWITCH_B)))
            else:
                v = tm.V(f"branch_kind{j}")
                sym.assumes.append(tm.and_(tm.le(I(0), v), tm.le(v, I(2))))
                sym.vars[f"branch_kind{j}"] = "i32"
                kinds.append(v)
        a.update(branch_kinds=kinds)
        return a, vals

    def component(st, symargs):
        if not hasattr(st, "c07_component"):
            branches = Agg([Agg([Opaque(f"branch token {j}"), Enum(kd, {}, "BranchKind")]) for j, kd in enumerate(symargs["branch_kinds"])])
            st.c07_component = Cell(Agg([Agg([branches]), Agg([Agg([I(IF)]), Agg([I(ELSE)]), Agg([I(OR)]), Agg([I(FI)])])]))
        return st.c07_component

    def env_component(ex, m, args, tys, st, fn, symargs):
        return [(st, Ref(component(st, symargs)))]

    def env_error(ex, m, args, tys, st, fn, symargs):
        st.log.append(("error",))
        return [(st, Enum(0, {0: [Agg([])]}, "Result"))]  # a recoverable error: execution continues

    def env_new_error(ex, m, args, tys, st, fn, symargs):
        return [(st, Opaque("error value"))]

    def post(a, ret, st):
        cls = a["cls"]
        consumed = sum(1 for e in st.log if e[0] == "token")
        errors = sum(1 for e in st.log if e[0] == "error")
        stack = component(st, a).v.fields[0].fields[0].fields
        kinds = a["branch_kinds"]
        # the innermost open branch is closed, whatever it was; the others are untouched
        want_len = max(stack_len - 1, 0)
        if len(stack) != want_len:
            return tm.FALSE
        untouched = tm.and_(*[tm.eq(stack[j].fields[1].tag, kinds[j]) for j in range(want_len)])
        if stack_len == 0:
            valid = tm.FALSE
        elif which == "or":
            valid = tm.eq(kinds[-1], I(SWITCH_B))
        else:
            valid = tm.or_(tm.eq(kinds[-1], I(TRUE_B)), tm.eq(kinds[-1], I(SWITCH_B)))
        if errors:
            # misplaced: reported, nothing skipped
            return tm.and_(untouched, tm.not_(valid), tm.B(errors == 1 and consumed == 0 and ret.tag.val == 0))
        depth = I(0)
        stops = []
        for i in range(k):
            stops.append(tm.and_(tm.eq(cls[i], I(FI)), tm.eq(depth, I(0))))
            depth = tm.add(depth, tm.ite(tm.eq(cls[i], I(IF)), I(1), tm.ite(tm.eq(cls[i], I(FI)), I(-1), I(0))))
        if ret.tag.val == 1:
            return tm.and_(untouched, valid, tm.B(consumed == k and st.log[-1] == ("end_of_input",)), *[tm.not_(s_) for s_ in stops])
        if consumed == 0:
            return tm.FALSE
        i = consumed - 1
        return tm.and_(untouched, valid, stops[i], *[tm.not_(s_) for s_ in stops[:i]])

    fn = {"or": "or_primitive_fn", "else": "else_primitive_fn"}[which]
    envs = [e for e in base["env_models"] if "HasComponent" not in e[0]]
    return dict(base, name=f"c07_{which}_skips_to_fi_{k}_tokens_stack{stack_len}", fn=("texlang-stdlib", fn, None, None), build_args=build, post=post,
                env_models=envs + [(r"^<S as (?:[a-z_]+::)*HasComponent<conditional::Component>>::component$", env_component),
                                   (r"^<ExpansionInput<S> as (?:[a-z_]+::)*TokenStream>::error::<.*>$", env_error),
                                   (r"^(?:[a-z_]+::)*SimpleTokenError::new::<.*>$", env_new_error)],
                witnesses=[("a nested conditional is skipped whole", lambda a: tm.and_(tm.eq(a["cls"][0], I(IF)), tm.eq(a["cls"][1], I(FI)), tm.eq(a["cls"][2], I(FI)), tm.eq(a["branch_kinds"][-1], I(SWITCH_B)))),
                           ("misplaced", lambda a: tm.eq(a["branch_kinds"][-1], I(ELSE_B)))] if k >= 3 and stack_len >= 1 else [],
                funcs=[f"texlang_stdlib::conditional::{fn} and pop_branch (generic MIR; the branch stack is a modelled RefCell<Vec<Branch>>; token stream, tag lookup and error reporting replaced by stubs)"],
                bound=(f"a branch stack of {stack_len} open branch(es) of arbitrary kinds (true, else, switch) and a stream of {k} tokens with arbitrary tags: a \\{which} met while a branch is delivered closes the innermost "
                       f"branch (the others are untouched) and, when that branch is {'a switch case' if which == 'or' else 'a true branch or a switch case'}, skips exactly the tokens up to and including the matching \\fi "
                       "(nested conditionals skipped whole); otherwise it reports one error and consumes nothing; the only other failure is the end of the input"))


PROP = {
    "level_text": 'Decided: the \\ifodd and \\ifnum conditions for every i32 operand (scanners stubbed); the skipping of the branch not taken (false_case) and the case selection of \\ifcase at driver level, with the token stream, the tag lookup and the branch stack replaced by stubs, for every stream prefix of <= 5 (ifcase: 4) tokens including nested conditionals. NOT decided: the \\or/\\else/\\fi primitives, \\let-aliased conditionals, \\expandafter/\\noexpand (VM-bound).',
    "title": "Conditionals deliver only the selected branch; \\expandafter acts on one token",
    "explanation": "Engine B decides the \\ifodd / \\ifnum conditions for every 32-bit operand from the MIR of IfOdd::evaluate / IfNum::evaluate (scanners stubbed to return arbitrary values), and executes the generic MIR of false_case and if_case_primitive_fn against a symbolic token stream (each token's tag arbitrary among if/else/or/fi/none) to decide where skipping stops (TeX.2021.494-509).",
    "outside": [
        "skipping is decided at driver level only (false_case with the token stream and tag lookup stubbed, <= 5 tokens); the \\or/\\else/\\fi primitives themselves (what happens when the selected branch ends) and their branch stack, \\let-aliased conditionals (the tag lookup is a stub), \\expandafter / \\noexpand: NOT decided (VM-bound)",
        "\\ifnum: scanning of the two numbers and of the relation character (<, =, >) is stubbed; only the comparison is decided",
    ],
    "assumptions": ["i32::parse(input) is stubbed: returns Ok(n) for an arbitrary i32 n (its own behaviour is the subject of C06)"],
    "obligations": [
        false_case_obligation(4), false_case_obligation(5), ifcase_obligation(4),
        skip_to_fi_obligation("or", 5, 1), skip_to_fi_obligation("else", 5, 1), skip_to_fi_obligation("or", 4, 2), skip_to_fi_obligation("else", 4, 2),
        skip_to_fi_obligation("or", 2, 0), skip_to_fi_obligation("else", 2, 0),
        dict(engine="B", name="c07_ifnum_condition", crates=["texlang-stdlib"], fn=("texlang-stdlib", "evaluate", "IfNum", "Condition"),
             args=[("input", "opaque ExpansionInput")],
             env_models=[(r"^<\(i32, (?:[a-z_]+::)*Ordering, i32\) as (?:[a-z_]+::)*Parsable>::parse::<.*>$", env_parse_relation)],
             post=post_ifnum,
             witnesses=[("a = b with '>'", lambda a: tm.and_(tm.eq(tm.V("a"), tm.V("b")), tm.eq(tm.V("rel"), I(1)))),
                        ("extreme operands", lambda a: tm.and_(tm.eq(tm.V("a"), I(-(1 << 31))), tm.eq(tm.V("b"), I((1 << 31) - 1)), tm.eq(tm.V("rel"), I(-1))))],
             funcs=["texlang_stdlib::conditional::<IfNum as Condition<S>>::evaluate (generic MIR; the (number, relation, number) scanner stubbed)"],
             bound="every pair of i32 operands and each of the three relations: \\ifnum a<b, a=b, a>b is true exactly when the relation holds (TeX.2021.503)"),
        dict(engine="B", name="c07_ifodd_condition", crates=["texlang-stdlib"], fn=("texlang-stdlib", "evaluate", "IfOdd", "Condition"),
             args=[("input", "opaque ExpansionInput")],
             env_models=[(r"^<i32 as (?:[a-z_]+::)*Parsable>::parse::<.*>$", env_parse_i32)],
             post=lambda a, ret: result_is(ret, tm.TRUE, lambda p: tm.or_(tm.and_(p, tm.eq(tm.emod(a["n"], I(2)), I(1))), tm.and_(tm.not_(p), tm.eq(tm.emod(a["n"], I(2)), I(0))))),
             witnesses=[("negative odd operand", lambda a: tm.eq(tm.V("n"), I(-3))), ("i32::MIN", lambda a: tm.eq(tm.V("n"), I(-(1 << 31))))],
             funcs=["texlang_stdlib::conditional::<IfOdd as Condition<S>>::evaluate (generic MIR)"],
             bound="every i32 operand: \\ifodd is true exactly for odd numbers, negative ones included (TeX.2021.504)"),
    ],
}
