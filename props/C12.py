"""C12 — typesetting a paragraph conserves its content and honours the geometry.
Decided for LineBreaker::post_line_break only (driver level, engine B): the function that turns a
horizontal list and a sequence of breakpoints into line boxes."""
from mir2smt import term as tm
from mir2smt.term import I
from mir2smt.execmir import Agg, Enum, Ref, Cell, Opaque

RULE, GLUE, KERN, PENALTY = 3, 11, 12, 13  # ds::Horizontal discriminants (source order)
V_HBOX, V_GLUE, V_PENALTY = 0, 7, 9        # ds::Vertical discriminants
KP = ["boxworks-knuthplass", "common", "boxworks"]


def scaled(x):
    return Agg([x])


def glue_val(w, st, sh):
    return Agg([scaled(w), scaled(st), Enum(I(0), {}, "GlueOrder"), scaled(sh), Enum(I(0), {}, "GlueOrder")])


def discardable(c):
    """TeX.2021.148 on the concrete kinds: glue, penalty, explicit kern (math is not in these lists)."""
    return c in "GPK"


def build(kinds, breaks, n_widths, n_indents):
    def f(sym, bind):
        def iv(name, lo, hi):
            if sym.consts is not None:
                return I(sym.consts.get(name, 0))
            v = tm.V(name)
            sym.assumes.append(tm.and_(tm.le(I(lo), v), tm.le(v, I(hi))))
            sym.vars[name] = "i32"
            return v
        W = 1 << 28
        vals = []
        for i, c in enumerate(kinds):
            if c == "R":
                vals.append(Enum(I(RULE), {RULE: [Agg([scaled(iv(f"h{i}", 0, W)), scaled(iv(f"w{i}", 0, W)), scaled(iv(f"d{i}", 0, W))])]}, "Horizontal"))
            elif c == "G":
                vals.append(Enum(I(GLUE), {GLUE: [Agg([glue_val(iv(f"w{i}", 0, W), iv(f"st{i}", 0, W), iv(f"sh{i}", 0, W)), Enum(I(0), {}, "GlueKind")])]}, "Horizontal"))
            elif c in "Kk":
                vals.append(Enum(I(KERN), {KERN: [Agg([scaled(iv(f"w{i}", -W, W)), Enum(I(1 if c == "K" else 0), {}, "KernKind")])]}, "Horizontal"))
            elif c == "P":
                vals.append(Enum(I(PENALTY), {PENALTY: [Agg([iv(f"p{i}", -10000, 10000)])]}, "Horizontal"))
            else:
                raise ValueError(c)
        pen = {k: iv(k, -10000, 10000) for k in ("inter_line_penalty", "club_penalty", "final_widow_penalty", "broken_penalty")}
        ls = (iv("ls_w", -W, W), iv("ls_st", 0, W), iv("ls_sh", 0, W))
        rs = (iv("rs_w", -W, W), iv("rs_st", 0, W), iv("rs_sh", 0, W))
        zero_glue = glue_val(I(0), I(0), I(0))
        params = Agg([I(0), pen["broken_penalty"], I(0), pen["club_penalty"], scaled(I(0)), I(0), I(0), pen["final_widow_penalty"], I(0), pen["inter_line_penalty"],
                      glue_val(*ls), I(0), I(0), zero_glue, I(0), glue_val(*rs), I(0)])
        widths = [iv(f"line_width{j}", 0, W) for j in range(n_widths)]
        indents = [iv(f"indent{j}", -W, W) for j in range(n_indents)]
        lb = Agg([Ref(Cell(params)), Ref(Cell(Agg([scaled(x) for x in widths]))), Ref(Cell(Agg([scaled(x) for x in indents]))), Enum(I(0), {}, "Option"), Opaque("hyphenator")])
        v_list = Ref(Cell(Agg([])))
        h_list = Ref(Cell(Agg(vals)))
        bps = Ref(Cell(Agg([I(b) for b in breaks])))
        args = dict(kinds=kinds, breaks=list(breaks), items=vals, pen=pen, ls=ls, rs=rs, widths=widths, indents=indents, consts=sym.consts)
        return args, [Ref(Cell(lb)), Ref(Cell(Opaque("font_repo"))), v_list, h_list, bps]
    return f


def env_pack(ex, m, args, tys, st, fn, symargs):
    """HBox::pack is the subject of C15; here it is a stub that records what it was asked to pack and returns a box
    holding that list, with arbitrary height and depth."""
    lst, pw = args[1], args[2]
    k = sum(1 for e in st.log if e[0] == "pack")
    st.log.append(("pack", lst, pw))
    c = symargs.get("consts")
    h = I(c.get(f"box_h{k}", 0)) if c is not None else tm.V(f"box_h{k}")
    d = I(c.get(f"box_d{k}", 0)) if c is not None else tm.V(f"box_d{k}")
    if c is None:
        # hpack's height/depth are maxima over the items (C15); the items of these lists are bounded by 2^28
        st.pc.append(tm.and_(tm.le(I(0), h), tm.le(h, I(1 << 28)), tm.le(I(0), d), tm.le(d, I(1 << 28))))
    width = pw.pay[0][0] if 0 in pw.pay else scaled(I(0))
    box = Agg([scaled(h), width, scaled(d), scaled(I(0)), lst, Agg([I(0), I(0)]), Enum(I(0), {}, "GlueOrder")])
    return [(st, box)]


def _is(v, tag):
    return isinstance(v, Enum) and v.tag.is_const and v.tag.val == tag


def _same(a, b):
    """Structural identity of two concrete-shaped values (terms compared structurally)."""
    from mir2smt.models import _struct_eq
    e = _struct_eq(a, b)
    return e


def post(a, ret, st):
    kinds, breaks, items = a["kinds"], a["breaks"], a["items"]
    n = len(kinds)
    packs = [e for e in st.log if e[0] == "pack"]
    if len(packs) != len(breaks):
        return tm.FALSE
    v_list = st.roots[2]
    while isinstance(v_list, Ref):
        v_list = v_list.cell.v
    conj = []
    start = 0
    vi = 0  # cursor in v_list
    for li, bp in enumerate(breaks):
        lst, pw = packs[li][1], packs[li][2]
        got = list(lst.fields)
        # --- left skip iff non-zero (TeX.2021.887), right skip always (TeX.2021.886)
        ls_zero = tm.and_(*[tm.eq(x, I(0)) for x in a["ls"]])
        # the function forks on is_zero(): on this path the list either starts with the left skip or not
        # expected body: items[start..bp] + residue of the break item
        body = items[start:bp]
        residue = []
        if bp < n:
            c = kinds[bp]
            if c == "P":
                residue = [("same", items[bp])]
            elif c in "Kk":
                residue = [("kern0", items[bp])]
            elif c == "G":
                residue = []
        exp_len = len(body) + len(residue) + 1  # + right skip
        if len(got) == exp_len + 1:
            # left skip present: must be non-zero and equal to \leftskip
            g0 = got[0]
            if not _is(g0, GLUE):
                return tm.FALSE
            gv = g0.pay[GLUE][0].fields[0]
            conj.append(tm.not_(ls_zero))
            conj.append(tm.and_(tm.eq(gv.fields[0].fields[0], a["ls"][0]), tm.eq(gv.fields[1].fields[0], a["ls"][1]), tm.eq(gv.fields[3].fields[0], a["ls"][2])))
            got = got[1:]
        elif len(got) == exp_len:
            conj.append(ls_zero)
        else:
            return tm.FALSE  # material lost, duplicated, or a line that begins with discardable items it should have dropped
        for x, y in zip(got, body):
            conj.append(_same(x, y))
        k = len(body)
        for kind, it in residue:
            g = got[k]
            if kind == "same":
                conj.append(_same(g, it))
            else:
                if not _is(g, KERN):
                    return tm.FALSE
                conj.append(tm.eq(g.pay[KERN][0].fields[0].fields[0], I(0)))
            k += 1
        rsk = got[k]
        if not _is(rsk, GLUE):
            return tm.FALSE
        gv = rsk.pay[GLUE][0].fields[0]
        conj.append(tm.and_(tm.eq(gv.fields[0].fields[0], a["rs"][0]), tm.eq(gv.fields[1].fields[0], a["rs"][1]), tm.eq(gv.fields[3].fields[0], a["rs"][2])))
        # --- no line begins with discardable material (TeX.2021.879) - checked on the expected start below
        # --- exact width of the line, indent as shift (TeX.2021.889)
        if not (pw.tag.is_const and pw.tag.val == 0):
            return tm.FALSE
        wj = a["widths"][li] if li < len(a["widths"]) else a["widths"][-1]
        conj.append(tm.eq(pw.pay[0][0].fields[0], wj))
        ind = (a["indents"][li] if li < len(a["indents"]) else (a["indents"][-1] if a["indents"] else I(0)))
        # --- the vertical list: [baseline glue] box [penalty]
        if li > 0:
            if vi >= len(v_list.fields) or not _is(v_list.fields[vi], V_GLUE):
                return tm.FALSE
            vi += 1
        if vi >= len(v_list.fields) or not _is(v_list.fields[vi], V_HBOX):
            return tm.FALSE
        box = v_list.fields[vi].pay[V_HBOX][0]
        conj.append(tm.eq(box.fields[3].fields[0], ind))
        vi += 1
        # --- inter-line penalty (TeX.2021.890)
        if li + 1 != len(breaks):
            p = a["pen"]["inter_line_penalty"]
            if li == 0:
                p = tm.add(p, a["pen"]["club_penalty"])
            if li + 2 == len(breaks):
                p = tm.add(p, a["pen"]["final_widow_penalty"])
            if vi < len(v_list.fields) and _is(v_list.fields[vi], V_PENALTY):
                conj.append(tm.not_(tm.eq(p, I(0))))
                conj.append(tm.eq(v_list.fields[vi].pay[V_PENALTY][0].fields[0], p))
                vi += 1
            else:
                conj.append(tm.eq(p, I(0)))
        # --- next line starts after the break item and the discardable items that follow it, up to the next break
        start = bp + 1
        nxt = breaks[li + 1] if li + 1 < len(breaks) else n
        while start < nxt and discardable(kinds[start]):
            start += 1
    if vi != len(v_list.fields):
        return tm.FALSE
    return tm.and_(*conj)


def ob(kinds, breaks, n_widths=2, n_indents=1, tier="quick"):
    name = f"c12_post_line_break_{kinds}_at_" + "_".join(str(b) for b in breaks) + ("" if (n_widths, n_indents) == (2, 1) else f"_w{n_widths}i{n_indents}")
    return dict(engine="B", name=name, crates=KP, fn=("boxworks-knuthplass", "post_line_break", "LineBreaker", None), args=[],
                build_args=build(kinds, breaks, n_widths, n_indents), unroll=len(kinds) + len(breaks) + 6, tier=tier,
                env_models=[(r"^(?:boxworks::ds::)?HBox::pack::<.*>$", env_pack)], post=post, post_state=True, prune=True,
                witnesses=[("left skip is zero", lambda a: tm.and_(*[tm.eq(x, I(0)) for x in a["ls"]])),
                           ("left skip is not zero", lambda a: tm.not_(tm.eq(a["ls"][0], I(0))))],
                funcs=["boxworks_knuthplass::LineBreaker::post_line_break (generic MIR; HBox::pack replaced by a recording stub, Vec/slice/iterator models; From/Into impls, Glue::is_zero, Scaled ops from the dump)"],
                bound=(f"horizontal list of shape {kinds} (R rule, G glue, P penalty, K explicit kern, k font kern) broken at {list(breaks)} (the last one is the paragraph end), every amount symbolic, "
                       f"{n_widths} line width(s), {n_indents} indent(s), symbolic left/right skip and club/widow/inter-line/broken penalties, empty vertical list before the paragraph"),
                assumes=["HBox::pack is a stub that records its arguments and returns a box of arbitrary height/depth holding the list (what it computes is C15)"])


def legal_breaks(kinds):
    out = []
    for i, c in enumerate(kinds):
        if c == "G" and i > 0 and kinds[i - 1] in "Rk":
            out.append(i)
        elif c == "K" and i + 1 < len(kinds) and kinds[i + 1] == "G":
            out.append(i)
        elif c == "P":
            out.append(i)
    return out


def family(n_items, tier):
    """Every list shape R x..x R of n_items items over {R, G, P, K, k} with every non-empty set of legal interior breakpoints."""
    import itertools
    out = []
    for mid in itertools.product("RGPKk", repeat=n_items - 2):
        kinds = "R" + "".join(mid) + "R"
        lb = legal_breaks(kinds)
        for r in range(1, len(lb) + 1):
            for sub in itertools.combinations(lb, r):
                out.append(ob(kinds, tuple(sub) + (n_items,), tier=tier))
    return out


HAND = [ob("RGR", (3,)), ob("RGRGR", (1, 3, 5), n_widths=1, n_indents=0)]
_seen = set()
OBLIGATIONS = []
for _o in HAND + family(3, "quick") + family(4, "quick") + family(5, "quick") + family(6, "thorough"):
    if _o["name"] not in _seen:
        _seen.add(_o["name"])
        OBLIGATIONS.append(_o)

PROP = {
    "title": "Line boxes conserve the broken list and honour the geometry (post_line_break)",
    "level_text": ("Decided for LineBreaker::post_line_break at driver level: for lists of a fixed shape and fixed breakpoints, with every amount and parameter symbolic, the packed lines contain exactly "
                   "the list items between the breaks (break glue dropped, break kern zeroed, break penalty kept, the discardable items after a break dropped), left skip iff non-zero, right skip always, "
                   "each line is packed to exactly its line width and shifted by its indent, and the inter-line penalties follow TeX.2021.890. "
                   "NOT decided: TextPreprocessor (text -> list, space factors), discretionary breaks, the baseline-skip glue amounts, HBox::pack itself (C15), the breaker (C04)."),
    "explanation": "post_line_break is executed from its generic MIR with HBox::pack replaced by a recording stub; the post-condition is the content/geometry part of the property over the recorded pack calls and the resulting vertical list.",
    "outside": [
        "TextPreprocessor::add_text / add_word / add_space (space-factor rules, \\\\spaceskip, \\\\xspaceskip): string/font bound, NOT decided",
        "discretionary breaks (pre/post-break material, replace_count, broken_penalty), math nodes",
        "the amounts of the baseline-skip glue between lines (the code carries TODOs there); only its presence is checked",
        "lists longer than 5 items / more than 3 lines",
    ],
    "assumptions": ["HBox::pack stubbed (recording); FontRepo opaque (no characters in these lists)"],
    "obligations": OBLIGATIONS,
}
