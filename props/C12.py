"""C12 — typesetting a paragraph conserves its content and honours the geometry.
Decided for LineBreaker::post_line_break only (driver level, engine B): the function that turns a
horizontal list and a sequence of breakpoints into line boxes."""
from mir2smt import term as tm
from mir2smt.term import I
from mir2smt.execmir import Agg, Enum, Ref, Cell, Opaque
from mir2smt import models_iter  # noqa: F401

RULE, DISCRETIONARY, GLUE, KERN, PENALTY = 3, 8, 11, 12, 13  # ds::Horizontal discriminants (source order)
# discretionary kinds: (pre-break rules, post-break rules, replace_count)
DISC = {"D": (1, 1, 1), "d": (1, 0, 0), "e": (0, 0, 0), "E": (0, 1, 2)}
V_HBOX, V_GLUE, V_PENALTY = 0, 7, 9        # ds::Vertical discriminants
KP = ["boxworks-knuthplass", "common", "boxworks"]


def scaled(x):
    return Agg([x])


def glue_val(w, st, sh):
    return Agg([scaled(w), scaled(st), Enum(I(0), {}, "GlueOrder"), scaled(sh), Enum(I(0), {}, "GlueOrder")])


def discardable(c):
    """TeX.2021.148 on the concrete kinds: glue, penalty, explicit kern (math is not in these lists)."""
    return c in "GPK"


def build(kinds, breaks, n_widths, n_indents, prior=0):
    def f(sym, bind):
        def iv(name, lo, hi):
            if sym.consts is not None:
                return I(sym.consts.get(name, 0))
            v = tm.V(name)
            sym.assumes.append(tm.and_(tm.le(I(lo), v), tm.le(v, I(hi))))
            sym.vars[name] = "i32"
            return v
        W = 1 << 28
        vals = []
        for i, c in enumerate(kinds):
            if c == "R":
                vals.append(Enum(I(RULE), {RULE: [Agg([scaled(iv(f"h{i}", 0, W)), scaled(iv(f"w{i}", 0, W)), scaled(iv(f"d{i}", 0, W))])]}, "Horizontal"))
            elif c == "G":
                vals.append(Enum(I(GLUE), {GLUE: [Agg([glue_val(iv(f"w{i}", 0, W), iv(f"st{i}", 0, W), iv(f"sh{i}", 0, W)), Enum(I(0), {}, "GlueKind")])]}, "Horizontal"))
            elif c in "Kk":
                vals.append(Enum(I(KERN), {KERN: [Agg([scaled(iv(f"w{i}", -W, W)), Enum(I(1 if c == "K" else 0), {}, "KernKind")])]}, "Horizontal"))
            elif c == "P":
                vals.append(Enum(I(PENALTY), {PENALTY: [Agg([iv(f"p{i}", -10000, 10000)])]}, "Horizontal"))
            elif c in DISC:
                npre, npost, nrep = DISC[c]
                mk = lambda nm: Enum(I(3), {3: [Agg([scaled(iv(f"{nm}h{i}", 0, W)), scaled(iv(f"{nm}w{i}", 0, W)), scaled(iv(f"{nm}d{i}", 0, W))])]}, "DiscretionaryElem")
                vals.append(Enum(I(DISCRETIONARY), {DISCRETIONARY: [Agg([Agg([mk(f"pre{j}_") for j in range(npre)]), Agg([mk(f"post{j}_") for j in range(npost)]), I(nrep)])]}, "Horizontal"))
            else:
                raise ValueError(c)
        pen = {k: iv(k, -10000, 10000) for k in ("inter_line_penalty", "club_penalty", "final_widow_penalty", "broken_penalty")}
        ls = (iv("ls_w", -W, W), iv("ls_st", 0, W), iv("ls_sh", 0, W))
        rs = (iv("rs_w", -W, W), iv("rs_st", 0, W), iv("rs_sh", 0, W))
        zero_glue = glue_val(I(0), I(0), I(0))
        params = Agg([I(0), pen["broken_penalty"], I(0), pen["club_penalty"], scaled(I(0)), I(0), I(0), pen["final_widow_penalty"], I(0), pen["inter_line_penalty"],
                      glue_val(*ls), I(0), I(0), zero_glue, I(0), glue_val(*rs), I(0)])
        widths = [iv(f"line_width{j}", 0, W) for j in range(n_widths)]
        indents = [iv(f"indent{j}", -W, W) for j in range(n_indents)]
        lb = Agg([Ref(Cell(params)), Ref(Cell(Agg([scaled(x) for x in widths]))), Ref(Cell(Agg([scaled(x) for x in indents]))), Enum(I(0), {}, "Option"), Opaque("hyphenator")])
        # material already on the vertical list before the paragraph: `prior` boxes with arbitrary depth
        prior_boxes = [Enum(I(V_HBOX), {V_HBOX: [Agg([scaled(iv(f"prior_h{j}", 0, W)), scaled(iv(f"prior_w{j}", 0, W)), scaled(iv(f"prior_d{j}", 0, W)), scaled(I(0)), Agg([]), Agg([I(0), I(0)]), Enum(I(0), {}, "GlueOrder")])]}, "Vertical")
                       for j in range(prior)]
        v_list = Ref(Cell(Agg(prior_boxes)))
        h_list = Ref(Cell(Agg(vals)))
        bps = Ref(Cell(Agg([I(b) for b in breaks])))
        args = dict(kinds=kinds, breaks=list(breaks), items=vals, pen=pen, ls=ls, rs=rs, widths=widths, indents=indents, consts=sym.consts, prior=prior)
        return args, [Ref(Cell(lb)), Ref(Cell(Opaque("font_repo"))), v_list, h_list, bps]
    return f


def env_pack(ex, m, args, tys, st, fn, symargs):
    """HBox::pack is the subject of C15; here it is a stub that records what it was asked to pack and returns a box
    holding that list, with arbitrary height and depth."""
    lst, pw = args[1], args[2]
    k = sum(1 for e in st.log if e[0] == "pack")
    st.log.append(("pack", lst, pw))
    c = symargs.get("consts")
    h = I(c.get(f"box_h{k}", 0)) if c is not None else tm.V(f"box_h{k}")
    d = I(c.get(f"box_d{k}", 0)) if c is not None else tm.V(f"box_d{k}")
    if c is None:
        # hpack's height/depth are maxima over the items (C15); the items of these lists are bounded by 2^28
        st.pc.append(tm.and_(tm.le(I(0), h), tm.le(h, I(1 << 28)), tm.le(I(0), d), tm.le(d, I(1 << 28))))
    width = pw.pay[0][0] if 0 in pw.pay else scaled(I(0))
    box = Agg([scaled(h), width, scaled(d), scaled(I(0)), lst, Agg([I(0), I(0)]), Enum(I(0), {}, "GlueOrder")])
    return [(st, box)]


def _is(v, tag):
    return isinstance(v, Enum) and v.tag.is_const and v.tag.val == tag


def _same(a, b):
    """Structural identity of two concrete-shaped values (terms compared structurally)."""
    from mir2smt.models import _struct_eq
    e = _struct_eq(a, b)
    return e


def post(a, ret, st):
    kinds, breaks, items = a["kinds"], a["breaks"], a["items"]
    n = len(kinds)
    packs = [e for e in st.log if e[0] == "pack"]
    if len(packs) != len(breaks):
        return tm.FALSE
    v_list = st.roots[2]
    while isinstance(v_list, Ref):
        v_list = v_list.cell.v
    conj = []
    start = 0
    pending_post = []
    vi = a.get("prior", 0)  # cursor in v_list: what was there before the paragraph stays
    for j in range(vi):
        if not _is(v_list.fields[j], V_HBOX):
            return tm.FALSE
    for li, bp in enumerate(breaks):
        lst, pw = packs[li][1], packs[li][2]
        got = list(lst.fields)
        # --- left skip iff non-zero (TeX.2021.887), right skip always (TeX.2021.886)
        ls_zero = tm.and_(*[tm.eq(x, I(0)) for x in a["ls"]])
        # the function forks on is_zero(): on this path the list either starts with the left skip or not
        # expected body: items[start..bp] + residue of the break item
        body = list(pending_post) + items[start:bp]
        pending_post = []
        residue = []
        broken = False
        if bp < n:
            c = kinds[bp]
            if c in DISC:
                disc = items[bp].pay[DISCRETIONARY][0]
                residue = [("empty_disc", None)] + [("elem", e) for e in disc.fields[0].fields]
                pending_post = [("elem", e) for e in disc.fields[1].fields]
                broken = True
            elif c == "P":
                residue = [("same", items[bp])]
            elif c in "Kk":
                residue = [("kern0", items[bp])]
            elif c == "G":
                residue = []
        exp_len = len(body) + len(residue) + 1  # + right skip
        if len(got) == exp_len + 1:
            # left skip present: must be non-zero and equal to \leftskip
            g0 = got[0]
            if not _is(g0, GLUE):
                return tm.FALSE
            gv = g0.pay[GLUE][0].fields[0]
            conj.append(tm.not_(ls_zero))
            conj.append(tm.and_(tm.eq(gv.fields[0].fields[0], a["ls"][0]), tm.eq(gv.fields[1].fields[0], a["ls"][1]), tm.eq(gv.fields[3].fields[0], a["ls"][2])))
            got = got[1:]
        elif len(got) == exp_len:
            conj.append(ls_zero)
        else:
            return tm.FALSE  # material lost, duplicated, or a line that begins with discardable items it should have dropped
        def same_elem(g, e):
            """g: Horizontal in the line; e: the DiscretionaryElem it came from (rules only in these lists)."""
            if not _is(g, RULE):
                return tm.FALSE
            return _same(g.pay[RULE][0], e.pay[3][0])
        for x, y in zip(got, body):
            conj.append(same_elem(x, y[1]) if isinstance(y, tuple) else _same(x, y))
        k = len(body)
        for kind, it in residue:
            g = got[k]
            if kind == "same":
                conj.append(_same(g, it))
            elif kind == "elem":
                conj.append(same_elem(g, it))
            elif kind == "empty_disc":
                if not (_is(g, DISCRETIONARY) and len(g.pay[DISCRETIONARY][0].fields[0].fields) == 0 and len(g.pay[DISCRETIONARY][0].fields[1].fields) == 0):
                    return tm.FALSE
                conj.append(tm.eq(g.pay[DISCRETIONARY][0].fields[2], I(0)))
            else:
                if not _is(g, KERN):
                    return tm.FALSE
                conj.append(tm.eq(g.pay[KERN][0].fields[0].fields[0], I(0)))
            k += 1
        rsk = got[k]
        if not _is(rsk, GLUE):
            return tm.FALSE
        gv = rsk.pay[GLUE][0].fields[0]
        conj.append(tm.and_(tm.eq(gv.fields[0].fields[0], a["rs"][0]), tm.eq(gv.fields[1].fields[0], a["rs"][1]), tm.eq(gv.fields[3].fields[0], a["rs"][2])))
        # --- no line begins with discardable material (TeX.2021.879) - checked on the expected start below
        # --- exact width of the line, indent as shift (TeX.2021.889)
        if not (pw.tag.is_const and pw.tag.val == 0):
            return tm.FALSE
        wj = a["widths"][li] if li < len(a["widths"]) else a["widths"][-1]
        conj.append(tm.eq(pw.pay[0][0].fields[0], wj))
        ind = (a["indents"][li] if li < len(a["indents"]) else (a["indents"][-1] if a["indents"] else I(0)))
        # --- the vertical list: [baseline glue] box [penalty]
        if li > 0 or a.get("prior", 0) > 0:
            if vi >= len(v_list.fields) or not _is(v_list.fields[vi], V_GLUE):
                return tm.FALSE
            vi += 1
        if vi >= len(v_list.fields) or not _is(v_list.fields[vi], V_HBOX):
            return tm.FALSE
        box = v_list.fields[vi].pay[V_HBOX][0]
        conj.append(tm.eq(box.fields[3].fields[0], ind))
        vi += 1
        # --- inter-line penalty (TeX.2021.890)
        if li + 1 != len(breaks):
            p = a["pen"]["inter_line_penalty"]
            if li == 0:
                p = tm.add(p, a["pen"]["club_penalty"])
            if li + 2 == len(breaks):
                p = tm.add(p, a["pen"]["final_widow_penalty"])
            if broken:
                p = tm.add(p, a["pen"]["broken_penalty"])
            if vi < len(v_list.fields) and _is(v_list.fields[vi], V_PENALTY):
                conj.append(tm.not_(tm.eq(p, I(0))))
                conj.append(tm.eq(v_list.fields[vi].pay[V_PENALTY][0].fields[0], p))
                vi += 1
            else:
                conj.append(tm.eq(p, I(0)))
        # --- next line starts after the break item and the discardable items that follow it, up to the next break
        start = bp + 1
        nxt = breaks[li + 1] if li + 1 < len(breaks) else n
        if bp < n and kinds[bp] in DISC:
            start += DISC[kinds[bp]][2]            # the replaced items go (TeX.2021.882)
        if not pending_post:                        # TeX.2021.879: not after post-break material
            while start < nxt and discardable(kinds[start]):
                start += 1
    if vi != len(v_list.fields):
        return tm.FALSE
    return tm.and_(*conj)


def ob(kinds, breaks, n_widths=2, n_indents=1, tier="quick", prior=0):
    name = f"c12_post_line_break_{kinds}_at_" + "_".join(str(b) for b in breaks) + ("" if (n_widths, n_indents) == (2, 1) else f"_w{n_widths}i{n_indents}") + (f"_prior{prior}" if prior else "")
    return dict(engine="B", name=name, crates=KP, fn=("boxworks-knuthplass", "post_line_break", "LineBreaker", None), args=[],
                build_args=build(kinds, breaks, n_widths, n_indents, prior), unroll=len(kinds) + len(breaks) + 8, tier=tier,
                env_models=[(r"^(?:boxworks::ds::)?HBox::pack::<.*>$", env_pack)], post=post, post_state=True, prune=True,
                witnesses=[("left skip is zero", lambda a: tm.and_(*[tm.eq(x, I(0)) for x in a["ls"]])),
                           ("left skip is not zero", lambda a: tm.not_(tm.eq(a["ls"][0], I(0))))],
                funcs=["boxworks_knuthplass::LineBreaker::post_line_break (generic MIR; HBox::pack replaced by a recording stub, Vec/slice/iterator models; From/Into impls, Glue::is_zero, Scaled ops from the dump)"],
                bound=(f"horizontal list of shape {kinds} (R rule, G glue, P penalty, K explicit kern, k font kern) broken at {list(breaks)} (the last one is the paragraph end), every amount symbolic, "
                       f"{n_widths} line width(s), {n_indents} indent(s), symbolic left/right skip and club/widow/inter-line/broken penalties, {prior} box(es) on the vertical list before the paragraph"),
                assumes=["HBox::pack is a stub that records its arguments and returns a box of arbitrary height/depth holding the list (what it computes is C15)"])


# ---------------------------------------------------------------- inter-word glue (TeX.2021.1041-1044) and the space factor (TeX.2021.1034)
TXT = ["boxworks-text", "common", "boxworks"]


def py_xn_over_d(x, n, d):
    """TeX.2021.107 on Python ints (quotient only; d > 0, 0 <= n <= 65536): truncation towards zero of x*n/d."""
    neg = x < 0
    q = (abs(x) * n) // d
    return -q if neg else q


tm.UF_IMPL["xnd"] = py_xn_over_d


def _xnd_partial(x, n, d):
    if n.is_const and d.is_const and d.val > 0:
        return tm.tdiv(tm.mul(x, n), d)  # linear: constant multiplier and divisor
    return None


tm.UF_PARTIAL["xnd"] = _xnd_partial


def xnd_lemmas(x, n, d):
    q = tm.uf("xnd", x, n, d)
    if q.is_const or not q.op.startswith("uf_"):
        return []
    # true of TeX.2021.107 for d >= n > 0 or any operands: sign follows x, and |q| <= |x| * n / d; here only what the
    # callers need to rule out the overflow error: for 0 <= x the quotient is >= 0; for n <= d it does not exceed x
    return [tm.implies(tm.ge(x, I(0)), tm.ge(q, I(0))), tm.implies(tm.and_(tm.ge(x, I(0)), tm.le(n, d)), tm.le(q, x)),
            tm.implies(tm.eq(x, I(0)), tm.eq(q, I(0)))]


def env_xn_over_d(ex, m, args, tys, st, fn, symargs):
    """Scaled::xn_over_d is decided under C06 (= TeX.2021.107 for every operand); here it is summarised. The summary
    returns Ok((quotient, remainder)) under the precondition of the callers (no overflow: see the bound)."""
    x, n, d = ex.deref(args[0]).fields[0] if isinstance(args[0], Ref) else args[0].fields[0], args[1], args[2]
    if x.is_const and n.is_const and d.is_const:
        return NotImplemented
    for l in xnd_lemmas(x, n, d):
        st.pc.append(l)
    q = tm.uf("xnd", x, n, d)
    return [(st, Enum(0, {0: [Agg([scaled(q), scaled(ex.fresh_var("rem"))])]}, "Result"))]


def build_space(sym, bind):
    def iv(name, lo, hi):
        if sym.consts is not None:
            return I(sym.consts.get(name, 0))
        if name in getattr(sym, "partial", {}):
            sym.vars[name] = "i32"
            return I(sym.partial[name])
        v = tm.V(name)
        sym.assumes.append(tm.and_(tm.le(I(lo), v), tm.le(v, I(hi))))
        sym.vars[name] = "i32"
        return v
    W = 1 << 24
    g = lambda p: (iv(p + "_w", -W, W), iv(p + "_st", 0, W), iv(p + "_sh", 0, W))
    ss, xs, fs = g("space_skip"), g("xspace_skip"), g("font_space")
    extra = iv("font_extra_space", -W, W)
    sf = iv("space_factor", 1, 32767)
    font = Agg([glue_val(*fs), scaled(extra), Opaque("lig_kern_program")])
    params = Agg([Opaque("space_factor_codes"), glue_val(*ss), glue_val(*xs)])
    me = Agg([Agg([font]), I(0), Agg([sf]), params])
    lst = Ref(Cell(Agg([])))
    return dict(ss=ss, xs=xs, fs=fs, extra=extra, sf=sf), [Ref(Cell(me)), lst]


def tex_space_glue(a):
    """TeX.2021.1041-1044 -> (width, stretch, shrink)."""
    ss, xs, fs, extra, sf = a["ss"], a["xs"], a["fs"], a["extra"], a["sf"]
    zero = lambda g: tm.and_(*[tm.eq(x, I(0)) for x in g])
    base = [tm.ite(zero(ss), f, s_) for f, s_ in zip(fs, ss)]          # 1041/1042: \spaceskip if non-zero, else the font's space
    # 1044: modify according to the space factor (applies to \spaceskip as well)
    mod = [tm.ite(tm.ge(sf, I(2000)), tm.add(base[0], extra), base[0]), tm.uf("xnd", base[1], sf, I(1000)), tm.uf("xnd", base[2], I(1000), sf)]
    use_x = tm.and_(tm.ge(sf, I(2000)), tm.not_(zero(xs)))               # 1043: \xspaceskip, unmodified
    out = []
    for k in range(3):
        out.append(tm.ite(tm.eq(sf, I(1000)), base[k], tm.ite(use_x, xs[k], mod[k])))
    return out


def pre_space(a):
    lem = []
    zero = lambda g: tm.and_(*[tm.eq(x, I(0)) for x in g])
    for base in (a["fs"], a["ss"], [tm.ite(zero(a["ss"]), f, s_) for f, s_ in zip(a["fs"], a["ss"])]):
        lem += xnd_lemmas(base[1], a["sf"], I(1000)) + xnd_lemmas(base[2], I(1000), a["sf"])
    return tm.and_(*lem) if lem else tm.TRUE


def post_space(a, ret, st):
    lst = st.roots[1]
    while isinstance(lst, Ref):
        lst = lst.cell.v
    if len(lst.fields) != 1 or not _is(lst.fields[0], GLUE):
        return tm.FALSE
    gv = lst.fields[0].pay[GLUE][0].fields[0]
    got = [gv.fields[0].fields[0], gv.fields[1].fields[0], gv.fields[3].fields[0]]
    want = tex_space_glue(a)
    return tm.and_(*[tm.eq(x, y) for x, y in zip(got, want)], tm.eq(gv.fields[2].tag, I(0)), tm.eq(gv.fields[4].tag, I(0)))


SPACE = dict(engine="B", name="c12_add_space", crates=TXT, fn=("boxworks-text", "add_space", "TextPreprocessorImpl", "TextPreprocessor"), args=[], build_args=build_space,
             pre=pre_space, post=post_space, post_state=True, prune=True, env_models=[(r"^(?:common::)?Scaled::xn_over_d$", env_xn_over_d)],
             realise=[["space_factor", "space_skip", "xspace_skip", "font_"], ["space_factor"]],
             witnesses=[("space factor 1000", lambda a: tm.eq(a["sf"], I(1000))), ("space factor 3000 with \\xspaceskip", lambda a: tm.and_(tm.eq(a["sf"], I(3000)), tm.gt(a["xs"][0], I(0)))),
                        ("space factor 999 with \\spaceskip", lambda a: tm.and_(tm.eq(a["sf"], I(999)), tm.gt(a["ss"][1], I(0)))),
                        ("space factor 2500, font glue", lambda a: tm.and_(tm.eq(a["sf"], I(2500)), *[tm.eq(x, I(0)) for x in a["ss"] + a["xs"]]))],
             funcs=["boxworks_text::TextPreprocessorImpl::add_space (MIR; Glue::is_zero, SpaceFactor eq/default, Into from the dump; Scaled::xn_over_d summarised)"],
             bound="every space factor in [1, 32767], every \\spaceskip, \\xspaceskip and font space/stretch/shrink/extra-space with |x| <= 2^24 (stretch, shrink >= 0), one font: the glue appended is TeX.2021.1041-1044's",
             assumes=["Scaled::xn_over_d(x, n, d) is an uninterpreted function returning Ok (its equality with TeX.2021.107 is decided under C06; amounts <= 2^24 and factors <= 32767 keep it from overflowing)"])


def build_adjust(sym, bind):
    sf = sym.make("i32", "space_factor")
    new = sym.make("i32", "sf_code")
    return dict(sf=sf, new=new), [Ref(Cell(Agg([sf]))), I(65), Ref(Cell(Agg([Agg([new] * 256)])))]


def post_adjust(a, ret, st):
    cell = st.roots[0]
    while isinstance(cell, Ref):
        cell = cell.cell.v
    got = cell.fields[0]
    sf, s = a["sf"], a["new"]
    want = tm.ite(tm.eq(s, I(1000)), I(1000), tm.ite(tm.lt(s, I(1000)), tm.ite(tm.gt(s, I(0)), s, sf), tm.ite(tm.lt(sf, I(1000)), I(1000), s)))
    return tm.eq(got, want)


ADJUST = dict(engine="B", name="c12_space_factor_adjust", crates=TXT, fn=("boxworks-text", "adjust", "SpaceFactor", None), args=[], build_args=build_adjust,
              post=post_adjust, post_state=True,
              witnesses=[("code 3000 after a capital (999)", lambda a: tm.and_(tm.eq(a["new"], I(3000)), tm.eq(a["sf"], I(999)))), ("code 0", lambda a: tm.eq(a["new"], I(0)))],
              funcs=["boxworks_text::SpaceFactor::adjust (private; MIR)"],
              bound="every current space factor and every space-factor code (i32), character 'A' with every table entry equal to the symbolic code: TeX.2021.1034")


def legal_breaks(kinds):
    out = []
    for i, c in enumerate(kinds):
        if c == "G" and i > 0 and kinds[i - 1] in "Rk":
            out.append(i)
        elif c == "K" and i + 1 < len(kinds) and kinds[i + 1] == "G":
            out.append(i)
        elif c == "P" or c in DISC:
            out.append(i)
    return out


def disc_family():
    out = []
    for kinds, breaks in [("RDRR", (1, 4)), ("RdRR", (1, 4)), ("ReGR", (1, 4)), ("RdGR", (1, 4)), ("RERRR", (1, 5)), ("RDRGR", (1, 3, 5)), ("RGRDRR", (1, 3, 6)), ("RDRR", (4,)), ("RdPR", (1, 4)), ("RdR", (1, 3))]:
        out.append(ob(kinds, breaks))
    return out


def family(n_items, tier):
    """Every list shape R x..x R of n_items items over {R, G, P, K, k} with every non-empty set of legal interior breakpoints."""
    import itertools
    out = []
    for mid in itertools.product("RGPKk", repeat=n_items - 2):
        kinds = "R" + "".join(mid) + "R"
        lb = legal_breaks(kinds)
        for r in range(1, len(lb) + 1):
            for sub in itertools.combinations(lb, r):
                out.append(ob(kinds, tuple(sub) + (n_items,), tier=tier))
    return out


HAND = [ob("RGR", (3,)), ob("RGRGR", (1, 3, 5), n_widths=1, n_indents=0), ob("RGR", (1, 3), prior=1), ob("RGR", (3,), prior=2), ob("RPGR", (1, 4), prior=1)]
_seen = set()
OBLIGATIONS = []
for _o in [SPACE, ADJUST] + HAND + disc_family() + family(3, "quick") + family(4, "quick") + family(5, "quick") + family(6, "thorough"):
    if _o["name"] not in _seen:
        _seen.add(_o["name"])
        OBLIGATIONS.append(_o)

PROP = {
    "title": "Line boxes conserve the broken list and honour the geometry (post_line_break)",
    "level_text": ("Decided: (1) the inter-word glue kernels of the text preprocessor - add_space = TeX.2021.1041-1044 for every space factor and glue, SpaceFactor::adjust = TeX.2021.1034; (2) LineBreaker::post_line_break at driver level: for lists of a fixed shape and fixed breakpoints, with every amount and parameter symbolic, the packed lines contain exactly "
                   "the list items between the breaks (break glue dropped, break kern zeroed, break penalty kept, the discardable items after a break dropped), left skip iff non-zero, right skip always, "
                   "each line is packed to exactly its line width and shifted by its indent, and the inter-line penalties follow TeX.2021.890. "
                   "Breaks at discretionaries (pre-break material and an empty discretionary end the line, post-break material starts the next one, the replaced items vanish, broken_penalty is added) are decided on 10 hand-picked shapes. NOT decided: add_word (characters, ligatures, kerns: font and string bound), the baseline-skip glue amounts, HBox::pack itself (C15), the breaker (C04)."),
    "explanation": "post_line_break is executed from its generic MIR with HBox::pack replaced by a recording stub; the post-condition is the content/geometry part of the property over the recorded pack calls and the resulting vertical list.",
    "outside": [
        "TextPreprocessor::add_text / add_word (characters, ligatures, kerns, '-' discretionaries; that the list spells the words): string/font bound, NOT decided",
        "discretionary material other than rules (characters, ligatures, boxes, kerns), math nodes; discretionary breaks beyond the 10 listed shapes",
        "the amounts of the baseline-skip glue between lines (the code carries TODOs there); only its presence is checked",
        "lists longer than 5 items / more than 3 lines",
    ],
    "assumptions": ["HBox::pack stubbed (recording); FontRepo opaque (no characters in these lists)"],
    "obligations": OBLIGATIONS,
}
