"""C04 — line breaking: the arithmetic kernels (badness, demerits) for every operand."""
from mir2smt import term as tm
from mir2smt.term import I
from mir2smt.spec import f0, fld
from mir2smt.execmir import Ref


def tex_badness(t, s):
    """TeX.2021.108, t >= 0."""
    r = tm.ite(tm.le(t, I(7230584)), tm.tdiv(tm.mul(t, I(297)), s),
               tm.ite(tm.ge(s, I(1663497)), tm.tdiv(t, tm.tdiv(s, I(297))), t))
    cube = tm.tdiv(tm.add(tm.mul(tm.mul(r, r), r), I(0o400000)), I(0o1000000))
    return tm.ite(tm.eq(t, I(0)), I(0), tm.ite(tm.le(s, I(0)), I(10000), tm.ite(tm.gt(r, I(1290)), I(10000), cube)))


def params_of(lb):
    p = fld(lb, 0)
    while isinstance(p, Ref):
        p = p.cell.v
    return p


def tex_demerits(a):
    p = params_of(a["self"])
    line_penalty, adj, dbl, fin = fld(p, 11), fld(p, 0), fld(p, 2), fld(p, 6)
    b, pi = a["badness"], a["penalty"]
    d = tm.add(line_penalty, b)
    d = tm.ite(tm.ge(tm.abs_(d), I(10000)), I(100000000), tm.mul(d, d))
    d = tm.ite(tm.gt(pi, I(0)), tm.add(d, tm.mul(pi, pi)), tm.ite(tm.gt(pi, I(-10000)), tm.sub(d, tm.mul(pi, pi)), d))
    d = tm.ite(a["end_after_hyphen"], tm.add(d, fin), tm.ite(a["consecutive_hyphens"], tm.add(d, dbl), d))
    diff = tm.abs_(tm.sub(a["prev"].tag, a["this"].tag))
    return tm.ite(tm.gt(diff, I(1)), tm.add(d, adj), d)


def pre_demerits(a):
    p = params_of(a["self"])
    small = lambda x, m: tm.le(tm.abs_(x), I(m))
    return tm.and_(tm.le(I(0), a["badness"]), tm.le(a["badness"], I(10000)), tm.lt(a["penalty"], I(10000)), tm.gt(a["penalty"], I(-(1 << 31))),
                   small(fld(p, 11), 1 << 20), small(fld(p, 0), 1 << 28), small(fld(p, 2), 1 << 28), small(fld(p, 6), 1 << 28))


KP = ["boxworks-knuthplass", "common", "boxworks"]

PROP = {
    "level_text": "Only the arithmetic kernels are decided: badness (TeX.2021.108) and demerits (TeX.2021.859) equal TeX's for every operand in the stated ranges, from MIR by z3+cvc5. 'A pass finds a solution iff one exists and it is demerit-optimal' is NOT decided: a regression in the active-list search passes this check.",
    "title": "Line breaking: badness and demerits are TeX's for every operand",
    "explanation": (
        "Only the arithmetic kernels of the breaker are decided: badness (TeX.2021.108) and demerits (TeX.2021.859), private, "
        "loop-free, taken from MIR. Optimality of a whole breaking pass is NOT decided by this check (see outside)."),
    "outside": [
        "break_line_single_attempt / break_line_all_attempts as a whole: feasibility iff, demerit optimality, looseness - the active-list search over a horizontal list is beyond the SAT bound that finished in this sandbox; a regression there is not detected here",
        "fitness classification thresholds inside break_line_single_attempt (not a separable function)",
        "badness for negative shortfall (TeX.2021.108 requires t >= 0; callers pass |shortfall|)",
    ],
    "assumptions": ["private functions: the translator is not cross-checked natively for these two obligations (it is for every public kernel of C06/C17 in the same run of the same engine)"],
    "obligations": [
        dict(engine="B", name="c04_badness", crates=KP, fn=("boxworks-knuthplass", "badness", None, None),
             args=[("t", "Scaled64"), ("s", "Scaled64")],
             pre=lambda a: tm.and_(tm.le(I(0), f0(a["t"])), tm.le(f0(a["t"]), I(1 << 40)), tm.le(tm.abs_(f0(a["s"])), I(1 << 40))),
             post=lambda a, ret: tm.eq(ret, tex_badness(f0(a["t"]), f0(a["s"]))),
             witnesses=[("badness 100 region", lambda a: tm.and_(tm.eq(f0(a["t"]), I(65536)), tm.eq(f0(a["s"]), I(65536)))),
                        ("large t branch", lambda a: tm.and_(tm.gt(f0(a["t"]), I(7230584)), tm.ge(f0(a["s"]), I(1663497))))],
             smt_timeout=300, funcs=["boxworks_knuthplass::badness (private; MIR)"],
             bound="every shortfall t in [0, 2^40] and stretchability |s| <= 2^40 (i64 sums of 32-bit widths): TeX.2021.108"),
        dict(engine="B", name="c04_demerits", crates=KP, fn=("boxworks-knuthplass", "demerits", "LineBreaker", None),
             args=[("self", "&LineBreaker"), ("badness", "i32"), ("penalty", "i32"), ("prev", "FitnessClass"), ("this", "FitnessClass"),
                   ("consecutive_hyphens", "bool"), ("end_after_hyphen", "bool")],
             pre=pre_demerits, post=lambda a, ret: tm.eq(ret, tex_demerits(a)),
             witnesses=[("negative penalty", lambda a: tm.eq(a["penalty"], I(-50))), ("forced break", lambda a: tm.eq(a["penalty"], I(-10000))),
                        ("incompatible classes", lambda a: tm.and_(tm.eq(a["prev"].tag, I(0)), tm.eq(a["this"].tag, I(3))))],
             smt_timeout=300, funcs=["boxworks_knuthplass::LineBreaker::demerits (private; MIR)"],
             bound="badness in [0, 10000], penalty < 10000 (a feasible breakpoint), |line_penalty| <= 2^20, demerit parameters |x| <= 2^28: TeX.2021.859"),
    ],
}
