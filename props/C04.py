"""C04 — line breaking: the arithmetic kernels (badness, demerits) for every operand."""
from mir2smt import term as tm
from mir2smt.term import I
from mir2smt.spec import f0, fld
from mir2smt.execmir import Ref


def tex_badness(t, s):
    """TeX.2021.108, t >= 0."""
    r = tm.ite(tm.le(t, I(7230584)), tm.tdiv(tm.mul(t, I(297)), s),
               tm.ite(tm.ge(s, I(1663497)), tm.tdiv(t, tm.tdiv(s, I(297))), t))
    cube = tm.tdiv(tm.add(tm.mul(tm.mul(r, r), r), I(0o400000)), I(0o1000000))
    return tm.ite(tm.eq(t, I(0)), I(0), tm.ite(tm.le(s, I(0)), I(10000), tm.ite(tm.gt(r, I(1290)), I(10000), cube)))


def params_of(lb):
    p = fld(lb, 0)
    while isinstance(p, Ref):
        p = p.cell.v
    return p


def tex_demerits(a):
    p = params_of(a["self"])
    line_penalty, adj, dbl, fin = fld(p, 11), fld(p, 0), fld(p, 2), fld(p, 6)
    b, pi = a["badness"], a["penalty"]
    d = tm.add(line_penalty, b)
    d = tm.ite(tm.ge(tm.abs_(d), I(10000)), I(100000000), tm.mul(d, d))
    d = tm.ite(tm.gt(pi, I(0)), tm.add(d, tm.mul(pi, pi)), tm.ite(tm.gt(pi, I(-10000)), tm.sub(d, tm.mul(pi, pi)), d))
    d = tm.ite(a["end_after_hyphen"], tm.add(d, fin), tm.ite(a["consecutive_hyphens"], tm.add(d, dbl), d))
    diff = tm.abs_(tm.sub(a["prev"].tag, a["this"].tag))
    return tm.ite(tm.gt(diff, I(1)), tm.add(d, adj), d)


def pre_demerits(a):
    p = params_of(a["self"])
    small = lambda x, m: tm.le(tm.abs_(x), I(m))
    return tm.and_(tm.le(I(0), a["badness"]), tm.le(a["badness"], I(10000)), tm.lt(a["penalty"], I(10000)), tm.gt(a["penalty"], I(-(1 << 31))),
                   small(fld(p, 11), 1 << 20), small(fld(p, 0), 1 << 28), small(fld(p, 2), 1 << 28), small(fld(p, 6), 1 << 28))


KP = ["boxworks-knuthplass", "common", "boxworks"]

from props import c04_pass  # noqa: E402  (pass-level obligations: break_line_single_attempt on lists of a fixed shape)

PROP = {
    "level_text": ("Two layers, both from MIR by z3+cvc5. (1) The arithmetic kernels: badness (TeX.2021.108) and demerits (TeX.2021.859) equal TeX's for every operand in the stated ranges. "
                   "(2) The pass itself: break_line_single_attempt is executed symbolically on horizontal lists of a fixed shape (item kinds concrete, every width/stretch/shrink/penalty, the line width, "
                   "the tolerance, line_penalty, adj_demerits and right_skip symbolic) and its result is compared with the definition: breakpoints are returned iff some sequence of legal breakpoints is feasible, "
                   "and no feasible sequence has smaller total demerits. Bound: lists of <= 4 items with <= 1 interior legal breakpoint (2 candidate sequences), one line width, looseness 0, no discretionaries. "
                   "Longer lists, looseness, hyphenation demerits, the three-pass driver are NOT decided."),
    "title": "Line breaking: a pass finds a solution iff one exists and it is demerit-optimal (bounded lists); badness and demerits are TeX's for every operand",
    "explanation": (
        "The kernels badness (TeX.2021.108) and demerits (TeX.2021.859) are decided for every operand. The pass break_line_single_attempt is executed from its generic MIR "
        "(Vec/VecDeque/iterators modelled, solver-backed pruning of infeasible branches) on lists of a fixed shape with every amount symbolic; inside the pass, `badness` and symbolic x symbolic "
        "products are replaced by uninterpreted summaries constrained by true lemmas (so the verdict holds for the real functions), and a counterexample is only reported after it has been "
        "realised with the real functions and replayed against the natively compiled break_line_single_attempt."),
    "outside": [
        "lists with two or more interior legal breakpoints (the symbolic path count grows past the budget: measured, DESIGN.md 2.4), lists longer than 4 items, characters/ligatures/discretionaries/math (need a font repository or hyphenation state)",
        "non-zero looseness (TeX.2021.875), several line widths (\\parshape/\\hangindent classes), force_solution = true (final pass), emergency_stretch > 0, double/final hyphen demerits",
        "break_line_all_attempts (pretolerance / tolerance / emergency passes) and post_line_break",
        "shapes in which only discardable items lie between two breakpoints (TeX's break_width then runs past the next break and the line gets a negative natural width): the oracle refuses them",
        "badness for negative shortfall (TeX.2021.108 requires t >= 0; callers pass |shortfall|)",
    ],
    "assumptions": ["badness/demerits are private: the translator is not cross-checked natively for those two obligations; the pass obligations are (32 vectors per shape against the native build, every run)",
                    "inside the pass, badness(t, s) is an uninterpreted function with the lemmas 0 <= b <= 10000 for t >= 0 and b = 0 for t = 0 (true of TeX.2021.108, which c04_badness proves the code equals); x*y with both operands symbolic is an uninterpreted function with |xy| <= 10^8 for |x|,|y| <= 10^4 and x*x >= 0",
                    "the restriction stated in the property (overfull is upward closed in the line end) is assumed per instance as a precondition"],
    "obligations": [
        dict(engine="B", name="c04_badness", crates=KP, fn=("boxworks-knuthplass", "badness", None, None),
             args=[("t", "Scaled64"), ("s", "Scaled64")],
             pre=lambda a: tm.and_(tm.le(I(0), f0(a["t"])), tm.le(f0(a["t"]), I(1 << 40)), tm.le(tm.abs_(f0(a["s"])), I(1 << 40))),
             post=lambda a, ret: tm.eq(ret, tex_badness(f0(a["t"]), f0(a["s"]))),
             witnesses=[("badness 100 region", lambda a: tm.and_(tm.eq(f0(a["t"]), I(65536)), tm.eq(f0(a["s"]), I(65536)))),
                        ("large t branch", lambda a: tm.and_(tm.gt(f0(a["t"]), I(7230584)), tm.ge(f0(a["s"]), I(1663497))))],
             smt_timeout=300, funcs=["boxworks_knuthplass::badness (private; MIR)"],
             bound="every shortfall t in [0, 2^40] and stretchability |s| <= 2^40 (i64 sums of 32-bit widths): TeX.2021.108"),
        dict(engine="B", name="c04_demerits", crates=KP, fn=("boxworks-knuthplass", "demerits", "LineBreaker", None),
             args=[("self", "&LineBreaker"), ("badness", "i32"), ("penalty", "i32"), ("prev", "FitnessClass"), ("this", "FitnessClass"),
                   ("consecutive_hyphens", "bool"), ("end_after_hyphen", "bool")],
             pre=pre_demerits, post=lambda a, ret: tm.eq(ret, tex_demerits(a)),
             witnesses=[("negative penalty", lambda a: tm.eq(a["penalty"], I(-50))), ("forced break", lambda a: tm.eq(a["penalty"], I(-10000))),
                        ("incompatible classes", lambda a: tm.and_(tm.eq(a["prev"].tag, I(0)), tm.eq(a["this"].tag, I(3))))],
             smt_timeout=300, funcs=["boxworks_knuthplass::LineBreaker::demerits (private; MIR)"],
             bound="badness in [0, 10000], penalty < 10000 (a feasible breakpoint), |line_penalty| <= 2^20, demerit parameters |x| <= 2^28: TeX.2021.859"),
        c04_pass.obligation("R"),
        c04_pass.obligation("RGR"),
        c04_pass.obligation("RPR"),
        c04_pass.obligation("RKGR"),
        c04_pass.obligation("RGGR"),
        dict(c04_pass.obligation("RPGR"), tier="thorough"),
        dict(c04_pass.obligation("RkGR"), tier="thorough"),
    ],
}
