F = ["p_tfm"]
FUNCS = ["tfm::RawFile::deserialize", "tfm::SubFileSizes::{from([u8;24]), valid_lf}", "tfm::RawFile::finish_deserialization"]


def A(name, bound, tier="quick", timeout=600, funcs=FUNCS):
    return dict(engine="A", module="c10_tfm", name=name, features=F, tier=tier, timeout=timeout, funcs=funcs, bound=bound)


PROP = {
    "level_text": "Decided for the TFM header/length arithmetic only: RawFile::deserialize on every byte string up to 52 bytes and on the lf=32767 family. File::from_raw_file, validation, and the whole PL direction (and 'PL->TFM output is readable') are NOT decided.",
    "title": "TFM reader is total on the header/length arithmetic",
    "explanation": (
        "RawFile::deserialize is run on a buffer whose every byte and whose length are solver variables: all 2^16 values of "
        "all twelve header words against short and truncated files at once. Asserted: it returns (Kani's panic, overflow, "
        "bounds and slice checks are all on), and on Ok the sub-file slices tile exactly the 4*lf declared bytes inside the file."),
    "outside": [
        "files longer than 52 bytes other than the lf = 32767 family (a minimal valid file is 48 bytes: accepted files are inside the bound, fonts with real tables are not)",
        "File::from_raw_file, validate_and_fix and everything after the raw split (BTreeMap-based tables): a harness over tfm::File::deserialize on <= 52 symbolic bytes gave no verdict in 50 min and is not registered",
        "the PL reader (pl::cst / pl::ast over text) and 'PL->TFM output is a readable TFM': text parsing over symbolic strings was not attempted - NOT decided here",
    ],
    "assumptions": [],
    "obligations": [
        A("c10_raw_header_total_28", "every byte string of length 0..=28 (all truncations of a header, lf in {4,5} short files)"),
        A("c10_raw_header_total_52", "every byte string of length 0..=52 (includes every minimal accepted file and files with trailing bytes)"),
        A("c10_raw_header_total_68", "every byte string of length 0..=68 (accepted files of 12..=17 words)", tier="thorough", timeout=1500),
        A("c10_raw_header_largest_lf", "lf = 32767 (131068-byte file, zero body): every value of the other eleven header words", timeout=1500),
        A("c10_valid_lf_all_sizes", "every combination of the eleven non-negative 16-bit sub-file sizes", funcs=["tfm::SubFileSizes::valid_lf"]),
    ],
}
