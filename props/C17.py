"""C17 — font-metric arithmetic."""
from mir2smt import term as tm
from mir2smt.term import I
from mir2smt.spec import f0


def tex_store_scaled(fw, ds):
    """TeX.2021.568-572: z = design size in scaled units, reduced below 2^23 with alpha doubling;
    sw = (((d*z) div 256 + c*z) div 256 + b*z) div beta; negative words (a = 255): sw - alpha*z."""
    z = tm.tdiv(ds, I(16))
    alpha = I(16)
    for _ in range(6):
        big = tm.ge(z, I(0o40000000))
        z, alpha = tm.ite(big, tm.tdiv(z, I(2)), z), tm.ite(big, tm.mul(alpha, I(2)), alpha)
    beta = tm.tdiv(I(256), alpha)
    alpha_z = tm.mul(alpha, z)
    u = tm.wrap(fw, 32, False)
    a = tm.ediv(u, I(1 << 24))
    b = tm.emod(tm.ediv(u, I(1 << 16)), I(256))
    c = tm.emod(tm.ediv(u, I(1 << 8)), I(256))
    d = tm.emod(u, I(256))
    sw = tm.tdiv(tm.add(tm.tdiv(tm.add(tm.tdiv(tm.mul(d, z), I(256)), tm.mul(c, z)), I(256)), tm.mul(b, z)), beta)
    return tm.ite(tm.eq(a, I(255)), tm.sub(sw, alpha_z), sw)


PROP = {
    "level_text": "Decided: FixWord::to_scaled = TeX's store_scaled (every fix_word, each design size of a stated list), and the printing half of the text round trip (the real Display code against a transcription of PLtoTF's get_fix). The repository's own PL number scanner, compress and next-larger chains are NOT decided.",
    "title": "Font-metric arithmetic: fix_word text, scaling, compression match TeX",
    "explanation": "FixWord::to_scaled is executed from MIR (loop unrolled, to_be_bytes modelled) against TeX's store_scaled for every legal (value, design size) pair.",
    "outside": [
        "design sizes outside [1, 2048) and fix_words outside [-16, 16) (TeX.2021.568 and TFtoPL.2014.60 reject them)",
        "compress() and NextLargerProgram: NOT decided (not attempted)",
        "the PL reader's number scanner (pl::ast Parse for FixWord): text based and private; only Knuth's get_fix, transcribed, reads the printed text here",
    ],
    "assumptions": ["mir2smt models of to_be_bytes and the integer operators"],
    "obligations": [
        dict(engine="A", module="c17_fixword_print", name="c17_print_get_fix_every_fraction", features=["p_tfm"], tier="thorough", timeout=900,
             funcs=["tfm: impl Display for FixWord (TFtoPL.2014.40-43, through core::fmt into a byte sink)"],
             bound="every fix_word with |v| < 1.0 (all 2^21 - 1 values, either sign): the printed decimal has 1..7 fraction digits and a transcription of PLtoTF.2014.62-64 get_fix converts it back to v",
             assumes=["the reader is Knuth's get_fix transcribed in the harness; the repository's own PL number scanner (private, text based) is not exercised"]),
        dict(engine="A", module="c17_fixword_print", name="c17_print_get_fix_every_value", features=["p_tfm"], tier="quick", timeout=1500,
             funcs=["tfm: impl Display for FixWord (TFtoPL.2014.40-43, through core::fmt into a byte sink)"],
             bound="every fix_word -2048 < v < 2048 (all 2^32 - 1 values) in one query",
             assumes=["the reader is Knuth's get_fix transcribed in the harness"]),
        dict(engine="B", name="c17_to_scaled", crates=["tfm", "common"], fn=("tfm", "to_scaled", "FixWord", None),
             args=[("x", "FixWord"), ("ds", "FixWord")],
             pre=lambda a: tm.and_(tm.le(I(-(16 << 20)), f0(a["x"])), tm.lt(f0(a["x"]), I(16 << 20)),
                                   tm.le(I(1 << 20), f0(a["ds"])), tm.lt(f0(a["ds"]), I(2048 << 20))),
             post=lambda a, ret: tm.eq(f0(ret), tex_store_scaled(f0(a["x"]), f0(a["ds"]))),
             witnesses=[("negative word at a large design size", lambda a: tm.and_(tm.lt(f0(a["x"]), I(0)), tm.gt(f0(a["ds"]), I(1000 << 20)))),
                        ("10pt design size", lambda a: tm.eq(f0(a["ds"]), I(10 << 20)))],
             native={"fn": "FixWord::to_scaled", "args": ["x.0", "ds.0"],
                     "vector_filter": lambda v: -(16 << 20) <= v["x.0"] < (16 << 20) and (1 << 20) <= v["ds.0"] < (2048 << 20),
                     "vectors": [{"x.0": 1 << 20, "ds.0": 10 << 20}, {"x.0": -(1 << 20) - 3, "ds.0": 1500 << 20}, {"x.0": 349526, "ds.0": 10 << 20},
                                 {"x.0": -(16 << 20), "ds.0": (2048 << 20) - 1}, {"x.0": (16 << 20) - 1, "ds.0": 1 << 20}, {"x.0": 0, "ds.0": 12 << 20},
                                 {"x.0": -1, "ds.0": 17 << 20}, {"x.0": 123456, "ds.0": 700 << 20}]},
             sweep=("ds.0", [k << 20 for k in list(range(1, 129)) + list(range(136, 2048, 8)) + [2047]] + [18120704, 15099494, 21747466, 26096435]),
             sweep_quick=("ds.0", [k << 20 for k in (1, 5, 6, 7, 8, 9, 10, 12, 17, 127, 128, 255, 256, 511, 512, 1000, 1023, 1024, 2047)] + [18120704, 15099494, 21747466]),
             unroll=8, smt_timeout=120, funcs=["tfm::FixWord::to_scaled (MIR; common::Scaled operators inlined; while-loop unrolled <= 8 with an unwinding obligation)"],
             bound="every fix_word in [-16, 16) (symbolic) at each design size of a list (quick: 22 sizes incl. 5-12pt, 14.4pt, 17.28pt and the 2^k boundaries; thorough: every integer size 1..128pt, every 8th up to 2047pt, + 4 fractional): TeX.2021.568-572. A symbolic design size makes the products non-linear and neither z3, cvc5 (300 s) nor CBMC (15 min) decided it; also proves the assert!(a == 0 || a == 255) unreachable there"),
    ],
}
