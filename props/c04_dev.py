from props import c04_pass
OBLIGATIONS = [c04_pass.obligation(k) for k in ("R", "RGR", "RPR", "RKGR", "RGGR", "RPGR", "RkGR")]
