from props import c04_pass
OBLIGATIONS = [c04_pass.obligation(k) for k in ("R", "RGR", "RPR", "RKGR", "RGGR", "RPGR", "RkGR")] + [c04_pass.obligation("RGR", looseness=l) for l in (1, -1, 2)] + [c04_pass.obligation("R", looseness=l) for l in (1, -1)]
