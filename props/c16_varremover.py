"""C16, third sentence: rewriting a DVI stream to avoid the w, x, y, z variables (dvi::transforms::VarRemover) leaves the page
position and font of every typeset character and rule, and every other operation, unchanged.
One step of VarRemover::next from an *arbitrary* state of its position tracker (dvi::Values), per kind of operation."""
from mir2smt import term as tm
from mir2smt.term import I
from mir2smt.execmir import Agg, Enum, Ref, Cell, Opaque
from mir2smt import models_iter  # noqa: F401
from mir2smt.models import _struct_eq

TYPESET_CHAR, TYPESET_RULE, NOOP, BEGIN_PAGE, END_PAGE, PUSH, POP, RIGHT, MOVE, SETVAR, DOWN, ENABLE_FONT = range(12)
W, X, Y, Z = range(4)
KINDS = {"char_move": TYPESET_CHAR, "char_put": TYPESET_CHAR, "rule_move": TYPESET_RULE, "rule_put": TYPESET_RULE, "noop": NOOP, "bop": BEGIN_PAGE, "eop": END_PAGE,
         "push": PUSH, "pop": POP, "right": RIGHT, "down": DOWN, "font": ENABLE_FONT,
         "move_w": MOVE, "move_x": MOVE, "move_y": MOVE, "move_z": MOVE, "set_w": SETVAR, "set_x": SETVAR, "set_y": SETVAR, "set_z": SETVAR}
B24 = 1 << 24


def obligation(kind, depth, n_chars=1, tier="quick"):
    def build(sym, bind):
        def iv(name, lo=-B24, hi=B24):
            if sym.consts is not None:
                return I(sym.consts.get(name, 0))
            v = tm.V(name)
            sym.assumes.append(tm.and_(tm.le(I(lo), v), tm.le(v, I(hi))))
            sym.vars[name] = "i32"
            return v

        def stack_values(p, nch):
            h, v = iv(p + "h"), iv(p + "v")
            vars_ = [iv(p + n) for n in "wxyz"]
            chars = [(iv(f"{p}c{j}", 0, 255), iv(f"{p}f{j}", 0, 255)) for j in range(nch)]
            return dict(h=h, v=v, vars=vars_, chars=chars)

        def sv_val(s):
            return Agg([s["h"], Agg([Agg([c, f]) for c, f in s["chars"]]), s["v"], Agg(list(s["vars"]))])
        top = stack_values("top_", n_chars)
        tail = [stack_values(f"s{d}_", 1 if d == 0 else 0) for d in range(depth)]
        f = iv("font", 0, 255)
        values = Agg([f, sv_val(top), Agg([sv_val(s) for s in tail])])
        a = dict(top=top, tail=tail, f=f, kind=kind)
        # the operation handed out by the inner iterator
        k = KINDS[kind]
        if kind.startswith("char"):
            a["char"] = iv("op_char", 0, 255)
            op = Enum(I(k), {k: [a["char"], tm.B(kind == "char_move")]}, "Op")
        elif kind.startswith("rule"):
            a["height"], a["width"] = iv("op_height"), iv("op_width")
            op = Enum(I(k), {k: [a["height"], a["width"], tm.B(kind == "rule_move")]}, "Op")
        elif kind == "bop":
            a["params"] = [iv(f"op_p{j}") for j in range(10)]
            a["prev"] = iv("op_prev")
            op = Enum(I(k), {k: [Agg(list(a["params"])), a["prev"]]}, "Op")
        elif kind in ("right", "down"):
            a["d"] = iv("op_d")
            op = Enum(I(k), {k: [a["d"]]}, "Op")
        elif kind == "font":
            a["d"] = iv("op_font", 0, 255)
            op = Enum(I(k), {k: [a["d"]]}, "Op")
        elif kind.startswith("move_"):
            a["var"] = "wxyz".index(kind[-1])
            op = Enum(I(k), {k: [Enum(I(a["var"]), {}, "Var")]}, "Op")
        elif kind.startswith("set_"):
            a["var"] = "wxyz".index(kind[-1])
            a["d"] = iv("op_d")
            op = Enum(I(k), {k: [Enum(I(a["var"]), {}, "Var"), a["d"]]}, "Op")
        else:
            op = Enum(I(k), {}, "Op")
        a["op"] = op
        return a, [Ref(Cell(Agg([Opaque("inner iterator"), values])))]

    def env_inner_next(ex, m, args, tys, st, fn, symargs):
        import copy
        st.log.append(("inner_next",))
        return [(st, Enum(1, {1: [copy.deepcopy(symargs["op"])]}, "Option"))]

    # ---- the reference: the DVI standard's registers (h, v, w, x, y, z), stack and font
    def reference(a):
        top = dict(h=a["top"]["h"], v=a["top"]["v"], vars=list(a["top"]["vars"]), chars=list(a["top"]["chars"]))
        tail = [dict(h=s["h"], v=s["v"], vars=list(s["vars"]), chars=list(s["chars"])) for s in a["tail"]]
        f = a["f"]
        kind = a["kind"]
        out = ("same",)
        if kind == "char_move":
            top["chars"].append((a["char"], f))
        elif kind == "rule_move":
            top["h"] = tm.add(top["h"], a["width"])
        elif kind == "bop":
            top, tail = dict(h=I(0), v=I(0), vars=[I(0)] * 4, chars=[]), []
        elif kind == "push":
            tail.append(dict(h=top["h"], v=top["v"], vars=list(top["vars"]), chars=list(top["chars"])))
        elif kind == "pop":
            if tail:
                top = tail.pop()
        elif kind == "right":
            top["h"] = tm.add(top["h"], a["d"])
        elif kind == "down":
            top["v"] = tm.add(top["v"], a["d"])
        elif kind == "font":
            f = a["d"]
        elif kind.startswith("move_") or kind.startswith("set_"):
            var = a["var"]
            if kind.startswith("set_"):
                top["vars"][var] = a["d"]
            amount = top["vars"][var]
            if var in (W, X):
                top["h"] = tm.add(top["h"], amount)
                out = ("right", amount)
            else:
                top["v"] = tm.add(top["v"], amount)
                out = ("down", amount)
        return top, tail, f, out

    def sv_eq(got, want):
        """The inductive invariant is only what the emitted operations depend on: the four variables of the current and of
        every saved state (the tracker may or may not follow h, v, the font and pending character widths)."""
        return tm.and_(*[tm.eq(x, y) for x, y in zip(got.fields[3].fields, want["vars"])])

    def post(a, ret, st):
        me = st.roots[0]
        while isinstance(me, Ref):
            me = me.cell.v
        values = me.fields[1]
        top, tail, f, out = reference(a)
        if not (ret.tag.is_const and ret.tag.val == 1):
            return tm.FALSE
        op = ret.pay[1][0]
        conj = [sv_eq(values.fields[1], top)]
        if len(values.fields[2].fields) != len(tail):
            return tm.FALSE
        conj += [sv_eq(g, w) for g, w in zip(values.fields[2].fields, tail)]
        if out[0] == "same":
            conj.append(_struct_eq(op, a["op"]))          # every other operation is passed through unchanged
        else:
            k = RIGHT if out[0] == "right" else DOWN
            if not (op.tag.is_const and op.tag.val == k):
                return tm.FALSE
            conj.append(tm.eq(op.pay[k][0], out[1]))     # the same displacement, without the variable
        return tm.and_(*conj)

    return dict(engine="B", name=f"c16_var_remover_{kind}_stack{depth}" + ("" if n_chars == 1 else f"_chars{n_chars}"), crates=["dvi"], fn=("dvi", "next", "VarRemover", "Iterator"), args=[], tier=tier, build_args=build,
                env_models=[(r"^<I as (?:std::iter::)?Iterator>::next$", env_inner_next)], post=post, post_state=True, unroll=12,
                funcs=["dvi::transforms::VarRemover::next (generic MIR; the inner iterator is a stub), dvi::Values::update, Values::var, derived Clone/PartialEq of StackValues (MIR); Vec modelled"],
                bound=(f"one step from an arbitrary tracker state (h, v, w, x, y, z, font, {n_chars} pending character width(s), a stack of {depth} saved state(s)), operation `{kind}` with arbitrary operands, "
                       "all positions and operands |x| <= 2^24: the operation emitted moves (h, v) exactly as the original does under the DVI standard and never mentions a variable, every other "
                       "operation is passed through unchanged, and the tracker's variables w, x, y, z (current and saved) afterwards are the standard's - the only state the emitted operations depend on; by induction over steps this covers streams of any length"),
                assumes=["positions and operands are bounded by 2^24 so that h += d cannot overflow (an overflowing position panics in the dev profile; outside the claim)"])


OBLIGATIONS = [obligation(k, d) for k in KINDS for d in (0, 1)] + [obligation(k, 2, tier="thorough") for k in KINDS] + [obligation(k, 1, n_chars=0, tier="thorough") for k in ("pop", "bop", "push", "char_move")]
