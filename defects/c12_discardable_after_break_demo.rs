use boxworks::ds;
use boxworks::LineBreaker as _;
use common::Scaled;

struct NoFonts;
impl boxworks::FontRepo for NoFonts {
    fn width(&self, _: char, _: u32) -> Option<Scaled> { None }
    fn height(&self, _: char, _: u32) -> Option<Scaled> { None }
    fn depth(&self, _: char, _: u32) -> Option<Scaled> { None }
}
struct NoHyph;
impl boxworks::Hyphenator for NoHyph {
    fn hyphenate(&self, _: &mut Vec<ds::Horizontal>) {}
}

#[test]
fn no_line_begins_with_discardable_material() {
    // 60pt rule, \break, a 20pt space, 60pt rule on 100pt lines (what `A\break B` produces).
    let pt = |n: i32| Scaled::ONE * n;
    let rule = |w: i32| ds::Horizontal::Rule(ds::Rule { height: pt(1), width: pt(w), depth: pt(0) });
    let space = common::Glue { width: pt(20), ..Default::default() };
    let mut h_list = vec![
        rule(60),
        ds::Horizontal::Penalty(ds::Penalty(-10000)),
        ds::Horizontal::Glue(ds::Glue { value: space, kind: ds::GlueKind::Normal }),
        rule(60),
    ];
    let mut params = boxworks_knuthplass::Params::plain_tex_defaults();
    params.tolerance = 10000;
    params.pre_tolerance = 10000;
    let widths = [pt(100)];
    let lb = boxworks_knuthplass::LineBreaker {
        params: &params,
        line_widths: &widths,
        line_indents: &[],
        debug_logger: None,
        hyphenator: &NoHyph,
    };
    let mut v_list = vec![];
    lb.break_line(&NoFonts, &mut v_list, &mut h_list);
    let lines: Vec<&ds::HBox> = v_list
        .iter()
        .filter_map(|v| match v {
            ds::Vertical::HBox(b) => Some(b),
            _ => None,
        })
        .collect();
    assert_eq!(lines.len(), 2);
    assert!(
        !matches!(lines[1].list.first(), Some(ds::Horizontal::Glue(_))),
        "the second line begins with the space that followed \\break: {:?}",
        lines[1].list
    );
}
