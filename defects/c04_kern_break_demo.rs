use boxworks::ds;
use common::Scaled;

struct NoFonts;
impl boxworks::FontRepo for NoFonts {
    fn width(&self, _: char, _: u32) -> Option<Scaled> { None }
    fn height(&self, _: char, _: u32) -> Option<Scaled> { None }
    fn depth(&self, _: char, _: u32) -> Option<Scaled> { None }
}
struct NoHyph;
impl boxworks::Hyphenator for NoHyph {
    fn hyphenate(&self, _: &mut Vec<ds::Horizontal>) {}
}

fn run(kern: ds::KernKind) -> Option<Vec<usize>> {
    let pt = |n: i32| Scaled::ONE * n;
    let rule = |w: i32| ds::Horizontal::Rule(ds::Rule { height: pt(0), width: pt(w), depth: pt(0) });
    let list = vec![
        rule(60),
        ds::Horizontal::Kern(ds::Kern { width: pt(30), kind: kern }),
        ds::Horizontal::Glue(ds::Glue { value: common::Glue::ZERO, kind: ds::GlueKind::Normal }),
        rule(60),
    ];
    let mut params = boxworks_knuthplass::Params::plain_tex_defaults();
    params.tolerance = 10000;
    let widths = [pt(100)];
    let mut lb = boxworks_knuthplass::LineBreaker {
        params: &params,
        line_widths: &widths,
        line_indents: &[],
        debug_logger: None,
        hyphenator: &NoHyph,
    };
    lb.break_line_single_attempt(&list, &NoFonts, 10000, Scaled::ZERO, false)
}

#[test]
fn break_at_explicit_kern() {
    // 60pt rule, \kern30pt, glue, 60pt rule on 100pt lines: the only way is to break at the kern,
    // leaving two underfull lines of 60pt each (badness 10000 = tolerance).
    assert_eq!(run(ds::KernKind::Explicit), Some(vec![1, 4]));
}
