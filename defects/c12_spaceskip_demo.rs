use boxworks::ds;
use boxworks::TextPreprocessor;
use boxworks_text::{Params, TextPreprocessorImpl};
use common::Scaled;

const TFM_CMR10: &[u8] = include_bytes!("../../tfm/corpus/computer-modern/cmr10.tfm");

#[test]
fn spaceskip_is_modified_by_the_space_factor() {
    // \spaceskip=10pt plus 3pt minus 2pt, \xspaceskip zero. After "a." the space factor is 3000, so
    // TeX.2021.1043-1044 (TeXbook p.76) gives 10pt + extra_space, plus 3pt*3000/1000, minus 2pt*1000/3000.
    let pt = |n: i32| Scaled::ONE * n;
    let params = Params {
        space_skip: common::Glue { width: pt(10), stretch: pt(3), shrink: pt(2), ..Default::default() },
        ..Params::plain_tex_defaults()
    };
    let mut tfm_file = tfm::File::deserialize(TFM_CMR10).0.unwrap();
    let extra_space = tfm_file.named_param_scaled(tfm::NamedParameter::ExtraSpace).unwrap();
    let program = tfm::ligkern::CompiledProgram::compile_from_tfm_file(&mut tfm_file).0;
    let mut tp = TextPreprocessorImpl::new(params);
    tp.register_font(0, &tfm_file, program);
    tp.activate_font(0);
    let mut list = vec![];
    tp.add_word("a.", &mut list);
    tp.add_space(&mut list);
    let Some(ds::Horizontal::Glue(g)) = list.last() else { panic!("no glue") };
    assert_eq!(g.value.width, pt(10) + extra_space);
    assert_eq!(g.value.stretch, pt(9));
    assert_eq!(g.value.shrink, Scaled(2 * 65536 / 3));
}
