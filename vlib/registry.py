"""Property registry: /verif/props/<ID>.py defines PROP = {...} (see props/C16.py for the shape)."""
import importlib.util
import os

HERE = os.path.dirname(os.path.dirname(os.path.abspath(__file__)))


def load(pid):
    path = os.path.join(HERE, "props", f"{pid}.py")
    if not os.path.exists(path):
        raise SystemExit(f"unknown or unclaimed property {pid} (no {path})")
    spec = importlib.util.spec_from_file_location(f"props_{pid}", path)
    mod = importlib.util.module_from_spec(spec)
    spec.loader.exec_module(mod)
    prop = mod.PROP
    prop["id"] = pid
    names = set()
    for o in prop["obligations"]:
        assert o["engine"] in ("A", "B"), o
        assert o["name"] not in names, f"duplicate obligation {o['name']}"
        names.add(o["name"])
    return prop
