"""Engine B: MIR -> SMT-LIB obligations, decided by z3 and cvc5 (see mir2smt/)."""


def run(prop, obligations, tier, seed):
    from mir2smt import runner
    return runner.run(prop, obligations, tier, seed)
