"""Known findings: /verif/known_findings.json, committed, never written at run time."""
import json
import os

HERE = os.path.dirname(os.path.dirname(os.path.abspath(__file__)))


def load():
    p = os.path.join(HERE, "known_findings.json")
    if not os.path.exists(p):
        return {"findings": [], "fixed": []}
    return json.load(open(p))


def lookup(kf, prop_id, finding_id):
    for e in kf.get("findings", []):
        if e["property"] == prop_id and e["id"] == finding_id:
            return e
    return None
