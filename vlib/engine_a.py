"""Engine A: Kani 0.68 / CBMC 6.11 over the compiled code of /repo (path dependencies).

One `cargo kani` invocation per (feature set, timeout) group, harnesses in parallel (-j), results
read from --export-json. A failing harness is re-run with concrete playback and the generated unit
test is executed natively (dev and release profile) before a violation is reported.
"""
import json
import os
import re
import resource
import shutil
import subprocess
import time

HERE = os.path.dirname(os.path.dirname(os.path.abspath(__file__)))
HARNESS = os.path.join(HERE, "harness")
CACHE = os.path.join(HERE, ".cache")
TARGET = os.path.join(CACHE, "target")
REPO = "/repo"
MEM_LIMIT_GB = int(os.environ.get("VERIF_MEM_GB", "14"))


def _env():
    e = dict(os.environ)
    e["CARGO_NET_OFFLINE"] = "true"
    e.pop("RUSTUP_TOOLCHAIN", None)
    e.pop("CARGO_TARGET_DIR", None)
    return e


def _limit():
    lim = MEM_LIMIT_GB * (1 << 30)
    try:
        resource.setrlimit(resource.RLIMIT_AS, (lim, lim))
    except Exception:
        pass


def prepare():
    os.makedirs(CACHE, exist_ok=True)
    # path dependencies build /repo's working tree; its lock file pins the external crates
    shutil.copyfile(os.path.join(REPO, "Cargo.lock"), os.path.join(HARNESS, "Cargo.lock"))


def _kani_cmd(features, harnesses, timeout, jobs, json_out, target):
    cmd = ["cargo", "kani", "--features", ",".join(features), "--target-dir", target,
           "-Z", "unstable-options", "-Z", "stubbing", "--harness-timeout", f"{timeout}s",
           "--output-format", "terse", "--export-json", json_out, "--exact"]
    if jobs > 1:
        cmd += ["-j", str(jobs)]
    for h in harnesses:
        cmd += ["--harness", h]
    return cmd


def _qual(o):
    return f"{o['module']}::{o['name']}"


def run(prop, obligations, tier, seed, jobs=0):
    prepare()
    groups = {}
    for o in obligations:
        key = (tuple(o["features"]), tuple(sorted(o.get("env", {}).items())))
        groups.setdefault(key, []).append(o)
    results = []
    for (features, envkv), obls in groups.items():
        # one invocation per (features, env): the per-harness timeout is the largest one asked for in the group
        timeout = max(int(o.get("timeout", 300) * (1 if tier == "quick" else o.get("thorough_timeout_factor", 2))) for o in obls)
        # seed only permutes job order
        if seed:
            k = seed % len(obls)
            obls = obls[k:] + obls[:k]
        j = jobs or min(len(obls), int(os.environ.get("VERIF_MAX_JOBS", "12")))
        tagenv = "_".join(f"{k}{v}" for k, v in envkv)
        json_out = os.path.join(CACHE, f"kani_{prop['id']}_{'_'.join(features)}_{timeout}_{tagenv}.json")
        if os.path.exists(json_out):
            os.remove(json_out)
        log = json_out[:-5] + ".log"
        cmd = _kani_cmd(list(features), [_qual(o) for o in obls], timeout, j, json_out, TARGET)
        t0 = time.time()
        env = _env()
        env.update(dict(envkv))
        mem = max([o.get("mem_gb", MEM_LIMIT_GB) for o in obls])

        def _lim(mem=mem):
            lim = mem * (1 << 30)
            try:
                resource.setrlimit(resource.RLIMIT_AS, (lim, lim))
            except Exception:
                pass
        with open(log, "w") as lf:
            p = subprocess.run(cmd, cwd=HARNESS, env=env, stdout=lf, stderr=subprocess.STDOUT, preexec_fn=_lim)
        dt = time.time() - t0
        out = open(log, errors="replace").read()
        if not os.path.exists(json_out):
            # compile error or driver crash: nothing was decided
            tail = "\n".join([l for l in out.splitlines() if l.startswith("error")][:5]) or out[-600:]
            for o in obls:
                results.append({"obligation": o, "verdict": "build_error", "seconds": dt,
                                "detail": "kani did not produce results: " + tail.replace("\n", " | ")[:400]})
            continue
        data = json.load(open(json_out))
        by_id = {r["harness_id"]: r for r in data.get("verification_results", {}).get("results", [])}
        stats = {c["harness_id"]: (c.get("cbmc_stats") or {}) for c in data.get("cbmc", [])}
        for o in obls:
            q = _qual(o)
            r = by_id.get(q)
            if r is None:
                results.append({"obligation": o, "verdict": "not_run", "seconds": 0.0,
                                "detail": "harness missing from kani results (name/module mismatch or compile filter)"})
                continue
            results.append(_classify(prop, o, r, stats.get(q, {}), out, features, timeout, dict(envkv)))
    return results


def _classify(prop, o, r, st, out, features, timeout, extra_env=None):
    st = st or {}
    checks = r.get("checks") or []
    covers = [c for c in checks if c.get("category") == "cover"]
    sat = [c for c in covers if c["status"] == "Satisfied"]
    failed = [c for c in checks if c["status"] == "Failure"]
    res = {
        "obligation": o,
        "seconds": r.get("duration_ms", 0) / 1000.0,
        "solver_s": float(st.get("runtime_solver_s", 0.0)) + float(st.get("runtime_decision_procedure_s", 0.0)),
        "symex_s": float(st.get("runtime_symex_s", 0.0)),
        "witnesses_total": len(covers),
        "witnesses_satisfied": len(sat),
        "checks_total": len(checks),
        "solver_queries": 1,
        "sym_states": int(st.get("vccs_generated") or 0),
        "sym_transitions": int(st.get("size_program_expression") or 0),
    }
    res["sample"] = {
        "obligation": o["name"], "engine": "kani/cbmc", "bound": o.get("bound", ""),
        "functions": o.get("funcs", [])[:6],
        "checks_in_query": len(checks),
        "vccs": st.get("vccs_generated"),
        "witnesses_with_model": [c["description"].replace("cover condition: ", "") for c in sat][:6],
    }
    status = r.get("status")
    if status == "Success":
        if len(sat) < len(covers):
            res["verdict"] = "vacuous"
            miss = [c["description"] for c in covers if c["status"] != "Satisfied"]
            res["detail"] = "reachability witness without model: " + "; ".join(miss)[:300]
        elif len(covers) == 0:
            res["verdict"] = "vacuous"
            res["detail"] = "harness has no reachability witness"
        else:
            res["verdict"] = "holds"
        return res
    # not success: timeout / OOM / real failure
    if not checks or not failed:
        res["verdict"] = "inconclusive"
        res["detail"] = f"no verdict from CBMC (timeout {timeout}s, out of memory, or solver error)"
        return res
    real = [c for c in failed if not c["description"].startswith("unwinding assertion")]
    if not real:
        res["verdict"] = "inconclusive"
        res["detail"] = "unwinding assertion failed: loop bound too small for this harness: " + failed[0].get("function", "")
        return res
    res["failed_checks"] = [{"description": c["description"], "function": c.get("function"),
                             "location": c.get("location")} for c in real[:5]]
    res["detail"] = "; ".join(c["description"] for c in real[:3])[:300]
    if o.get("known_finding") and not o.get("replay_known", False):
        # pinned witness of a listed finding: the failing input is fixed in the harness itself
        res["verdict"] = "violated"
        return res
    rep = replay(prop, o, features, timeout, extra_env or {})
    res.update(rep)
    return res


# ---------------------------------------------------------------------------------------------
# counterexample replay

def _scratch_crate(tag):
    d = os.path.join(CACHE, "replay", tag)
    if os.path.exists(d):
        shutil.rmtree(d)
    os.makedirs(os.path.dirname(d), exist_ok=True)
    shutil.copytree(HARNESS, d, ignore=shutil.ignore_patterns("target"))
    return d


def replay(prop, o, features, timeout, extra_env=None):
    """Ask Kani for a concrete playback test of the failing harness, then run it natively."""
    tag = f"{prop['id']}_{o['name']}"
    d = _scratch_crate(tag)
    target = os.path.join(CACHE, "target_replay")
    cmd = ["cargo", "kani", "--features", ",".join(features), "--target-dir", target,
           "-Z", "unstable-options", "-Z", "stubbing", "-Z", "concrete-playback", "--concrete-playback=print",
           "--harness-timeout", f"{timeout}s", "--exact", "--harness", _qual(o)]
    env = _env()
    env.update(extra_env or {})
    mem = o.get("mem_gb", MEM_LIMIT_GB)

    def _lim(mem=mem):
        lim = mem * (1 << 30)
        try:
            resource.setrlimit(resource.RLIMIT_AS, (lim, lim))
        except Exception:
            pass
    p = subprocess.run(cmd, cwd=d, env=env, stdout=subprocess.PIPE, stderr=subprocess.STDOUT, preexec_fn=_lim)
    out = p.stdout.decode(errors="replace")
    # Kani also emits playback tests for satisfied cover! witnesses; only failing checks are replayed
    blocks = [b for b in re.findall(r"```\s*\n(.*?)```", out, re.S) if "#[test]" in b and "Check for `cover`" not in b]
    if not blocks:
        shutil.rmtree(d, ignore_errors=True)
        with open(os.path.join(CACHE, f"playback_gen_{o['name']}.log"), "w") as f:
            f.write(out)
        return {"verdict": "inconclusive", "detail": "CBMC reports a failure but no concrete playback test was generated"}
    blocks = blocks[:4]
    test_src = "\n".join(blocks)
    tname = "kani_concrete_playback_"
    rdir = os.path.join(HERE, "replays", prop["id"])
    os.makedirs(rdir, exist_ok=True)
    rpath = os.path.join(rdir, f"{o['name']}.rs")
    with open(rpath, "w") as f:
        f.write(f"// replay for property {prop['id']}, harness {_qual(o)} (features {','.join(features)})\n")
        f.write(f"// module-file: {o['module'].replace('::', '/')}.rs\n// test-name: {tname}\n")
        f.write(f"// run: /verif/check {prop['id']} --replay {rpath}\n")
        f.write(test_src)
    verdicts = _native(d, o, features, test_src, tname, extra_env)
    shutil.rmtree(d, ignore_errors=True)
    if verdicts.get("dev") == "fails" or verdicts.get("release") == "fails":
        return {"verdict": "violated", "replay": rpath,
                "detail_replay": f"native replay: dev={verdicts.get('dev')} release={verdicts.get('release')}"}
    return {"verdict": "inconclusive", "replay": rpath,
            "detail": f"counterexample did not reproduce natively (dev={verdicts.get('dev')}, release={verdicts.get('release')}): encoding or stub error"}


def _native(d, o, features, test_src, tname, extra_env=None):
    src = os.path.join(d, "src", o["module"].replace("::", "/") + ".rs")
    with open(src, "a") as f:
        f.write("\n" + test_src + "\n")
    verdicts = {}
    for prof in ("dev", "release"):
        cmd = ["cargo", "kani", "playback", "-Z", "concrete-playback", "--features", ",".join(features)]
        cmd += ["--", tname]
        env = _env()
        env.update(extra_env or {})
        env["CARGO_TARGET_DIR"] = os.path.join(CACHE, "target_playback_" + prof)
        if prof == "release":
            # `cargo kani playback` has no --release; give the test profile release semantics instead
            for pr in ("DEV", "TEST"):
                env[f"CARGO_PROFILE_{pr}_OPT_LEVEL"] = "3"
                env[f"CARGO_PROFILE_{pr}_DEBUG_ASSERTIONS"] = "false"
                env[f"CARGO_PROFILE_{pr}_OVERFLOW_CHECKS"] = "false"
        p = subprocess.run(cmd, cwd=d, env=env, stdout=subprocess.PIPE, stderr=subprocess.STDOUT)
        out = p.stdout.decode(errors="replace")
        if re.search(r"test result: FAILED", out) or re.search(r"\.\.\. FAILED", out):
            verdicts[prof] = "fails"
        elif re.search(r"test result: ok\. [1-9]\d* passed", out):
            verdicts[prof] = "passes"
        else:
            verdicts[prof] = "error"
            with open(os.path.join(CACHE, f"playback_{o['name']}_{prof}.log"), "w") as f:
                f.write(out)
    return verdicts


def run_replay_file(prop, path):
    """./check <ID> --replay <path>: re-run a stored counterexample natively. exit 1 if it still fails."""
    text = open(path).read()
    mod = re.search(r"// module-file: (\S+)\.rs", text).group(1).replace("/", "::")
    tname = re.search(r"// test-name: (\S+)", text).group(1)
    hname = re.search(r"harness (\S+)", text).group(1).split("::")[-1]
    feats = re.search(r"\(features ([^)]*)\)", text).group(1).split(",")
    test_src = text[text.index("// run:"):].split("\n", 1)[1]
    prepare()
    d = _scratch_crate("manual_" + hname)
    v = _native(d, {"module": mod, "name": hname}, feats, test_src, tname)
    shutil.rmtree(d, ignore_errors=True)
    print(f"replay {path}: dev={v.get('dev')} release={v.get('release')}")
    if "fails" in v.values():
        print(f"VIOLATION property={prop['id']} replay={path}")
        return 1
    return 0
