"""Evidence writer: /verif/evidence/<ID>.json per EVIDENCE.schema.json (level model_checking,
generic counts because states/transitions do not describe a SAT/SMT run)."""
import json
import os

HERE = os.path.dirname(os.path.dirname(os.path.abspath(__file__)))


def write(prop, tier, seed, results, wall, nviol):
    queries = []
    funcs, stubs, bounds, assumptions = [], [], [], []
    solver_time = 0.0
    discharged = 0
    nontrivial = 0
    samples = []
    inconclusive = []
    nqueries = 0
    for r in results:
        o = r["obligation"]
        for f in o.get("funcs", []):
            if f not in funcs:
                funcs.append(f)
        for s in o.get("stubs", []):
            if s not in stubs:
                stubs.append(s)
        for a in o.get("assumes", []):
            if a not in assumptions:
                assumptions.append(a)
        bounds.append({"obligation": o["name"], "bound": o.get("bound", "")})
        nqueries += r.get("solver_queries", 1)
        solver_time += r.get("solver_s", 0.0)
        if r["verdict"] in ("holds", "known_finding", "known_finding_gone"):
            discharged += 1
        else:
            inconclusive.append({"obligation": o["name"], "verdict": r["verdict"], "detail": r.get("detail", "")})
        if r.get("witnesses_satisfied", 0) > 0 and r["verdict"] in ("holds", "known_finding"):
            nontrivial += 1
        queries.append({
            "id": o["name"], "engine": {"A": "kani/cbmc", "B": "mir2smt z3+cvc5"}[o["engine"]],
            "verdict": r["verdict"], "seconds": round(r.get("seconds", 0.0), 2),
            "solver_s": round(r.get("solver_s", 0.0), 3),
            "witnesses": f"{r.get('witnesses_satisfied', 0)}/{r.get('witnesses_total', 0)}",
            "checks": r.get("checks_total", 0),
        })
        if len(samples) < 8 and r.get("sample") is not None:
            samples.append(r["sample"])
    if not samples:
        samples = [{"obligation": r["obligation"]["name"], "bound": r["obligation"].get("bound", "")} for r in results[:3]]
    # rotate samples by seed so that different seeds show different obligations (verdicts do not depend on it)
    if samples and seed:
        k = seed % len(samples)
        samples = samples[k:] + samples[:k]
    ev = {
        "property_id": prop["id"],
        "tier": tier,
        "seed": seed,
        "level": "model_checking",
        "coverage": {
            "evaluations": nqueries,
            "distinct_nontrivial": nontrivial,
            "rule": ("one evaluation = one solver query discharged (a Kani/CBMC harness = one SAT query over all "
                     "values of its symbolic inputs within the stated bound, covering every assertion and every "
                     "built-in panic/overflow/bounds check it reaches; an engine-B obligation = one SMT query sent to "
                     "both z3 and cvc5). An obligation counts as non-trivial only if the solver also produced a model for "
                     "each of its reachability/vacuity witnesses (kani::cover! / sat-check of the precondition), "
                     "i.e. the assertion was reached with the interesting inputs."),
            "samples": samples,
            "obligations": len(results),
            "discharged": discharged,
            "exhaustive": False,
            "functions_encoded": funcs,
            "bounds": bounds,
            "outside_bounds": prop.get("outside", []),
            "stubs": stubs,
            "queries": queries,
            "solver_time_s": round(solver_time, 2),
            "inconclusive": inconclusive,
            "explanation": prop.get("explanation", ""),
        },
        "assumptions": assumptions + prop.get("assumptions", []),
        "wall_s": round(wall, 2),
        "violations": nviol,
    }
    os.makedirs(os.path.join(HERE, "evidence"), exist_ok=True)
    path = os.path.join(HERE, "evidence", f"{prop['id']}.json")
    with open(path, "w") as f:
        json.dump(ev, f, indent=1)
    return path
